#!/bin/sh
# usage: ./replay.sh <evidence/cex/ID-n.json>: re-executes the recorded path of a witness against /repo's current tree.
HERE="$(cd "$(dirname "$0")" && pwd)"
export GOFLAGS=-mod=mod GOPROXY=off GOSUMDB=off GOTOOLCHAIN=local
[ -x "$HERE/bin/gosym" ] || (cd "$HERE/engine" && go build -o "$HERE/bin/gosym" ./cmd/gosym)
exec "$HERE/bin/gosym" replay "$1"
