package verifmodel

import (
	"archive/tar"
	"io"
	"os"
)

// ---------------------------------------------------------------------------------------------
// M2: ghost tape. The drive file is described structurally (members, trailers) with symbolic
// offsets and sizes instead of bytes. archive/tar's Reader and Writer and *os.File are replaced by
// the functions below (see the //verif:replace directives); their contract is taken from the
// archive/tar and os sources and is listed in DESIGN.md §2.5.
// ---------------------------------------------------------------------------------------------

const (
	SegMember  = 0
	SegTrailer = 1 // 1024 zero bytes
	SegZeros   = 2 // N zero bytes (record padding)
)

type Seg struct {
	Kind    int
	Start   int64
	HBlocks int64       // member: header blocks
	Size    int64       // member: data bytes announced; zeros: byte count
	Written int64       // member: data bytes written so far
	Hdr     *tar.Header // member: header as a reader parses it
	Data    []byte      // member: content when tracked (len == Written), else nil
	Open    bool        // member still being written (no padding yet)
	Padded  int64       // if > 0: Size rounded up to 512 supplied by the harness (avoids bit tricks in queries)
}

func pad512(n int64) int64 { return (-n) & 511 }

func (s *Seg) End() int64 {
	switch s.Kind {
	case SegMember:
		if s.Open {
			return s.Start + 512*s.HBlocks + s.Written
		}
		if s.Padded > 0 || s.Size == 0 {
			return s.Start + 512*s.HBlocks + s.Padded
		}
		return s.Start + 512*s.HBlocks + s.Size + pad512(s.Size)
	case SegTrailer:
		return s.Start + 1024
	default:
		return s.Start + s.Size
	}
}

type Tape struct {
	Name string
	Segs []*Seg
	Len  int64 // current byte length of the file

	// ghost counters (C05/C15/C16)
	Truncates      int
	Appends        int
	NonAppendOpens int
	WriteOpens     int
	Exists         bool
}

func NewTape(name string) *Tape { return &Tape{Name: name, Exists: true} }

// AddMemberQR appends a complete member whose data length is 512*q+r (0 <= r < 512).
func (t *Tape) AddMemberQR(hdr *tar.Header, hblocks int64, q, r int64) *Seg {
	up := int64(Ite(r > 0, 1, 0))
	s := &Seg{Kind: SegMember, Start: t.Len, HBlocks: hblocks, Size: 512*q + r, Written: 512*q + r, Hdr: hdr, Padded: 512 * (q + up)}
	t.Segs = append(t.Segs, s)
	t.Len = s.End()
	return s
}

// AddMember appends a complete member (used by harnesses to build a pre-state).
func (t *Tape) AddMember(hdr *tar.Header, hblocks int64, size int64, data []byte) *Seg {
	s := &Seg{Kind: SegMember, Start: t.Len, HBlocks: hblocks, Size: size, Written: size, Hdr: hdr, Data: data}
	t.Segs = append(t.Segs, s)
	t.Len = s.End()
	return s
}

func (t *Tape) AddTrailer() *Seg {
	s := &Seg{Kind: SegTrailer, Start: t.Len}
	t.Segs = append(t.Segs, s)
	t.Len = s.End()
	return s
}

func (t *Tape) AddZeros(n int64) *Seg {
	s := &Seg{Kind: SegZeros, Start: t.Len, Size: n}
	t.Segs = append(t.Segs, s)
	t.Len = s.End()
	return s
}

// CutAt truncates the file to n bytes (a torn tail). Segments that start at or after the cut are gone;
// a run of zero blocks that straddles the cut is shortened; a member that straddles it stays in the
// list (its nominal extent then reaches beyond the end of the file, which is what readers trip over).
func (t *Tape) CutAt(n int64) {
	var keep []*Seg
	for _, s := range t.Segs {
		if s.Start >= n {
			continue
		}
		if s.Kind != SegMember && s.End() > n {
			s = &Seg{Kind: SegZeros, Start: s.Start, Size: n - s.Start}
		}
		keep = append(keep, s)
	}
	t.Segs = keep
	t.Len = n
}

func (t *Tape) LastMember() *Seg {
	for i := len(t.Segs) - 1; i >= 0; i-- {
		if t.Segs[i].Kind == SegMember {
			return t.Segs[i]
		}
	}
	return nil
}

// GhostFile is an open handle on a tape.
type GhostFile struct {
	T        *Tape
	Pos      int64
	Writable bool
	Append   bool
	Closed   bool
	Regular  bool
}

func (t *Tape) OpenRead() *GhostFile { return &GhostFile{T: t, Regular: true} }
func (t *Tape) OpenAppend() *GhostFile {
	t.WriteOpens++
	return &GhostFile{T: t, Writable: true, Append: true, Regular: true}
}

var ErrClosed = NewError("file already closed")

func (f *GhostFile) Fd() uintptr { return 3 }

func (f *GhostFile) Seek(off int64, whence int) (int64, error) {
	if f.Closed {
		return 0, ErrClosed
	}
	if FaultPoint("drive.seek") {
		return 0, NewError("injected seek fault")
	}
	var np int64
	switch whence {
	case io.SeekStart:
		np = off
	case io.SeekCurrent:
		np = f.Pos + off
	case io.SeekEnd:
		np = f.T.Len + off
	default:
		return 0, NewError("invalid whence")
	}
	if np < 0 {
		return 0, NewError("negative position")
	}
	f.Pos = np
	return np, nil
}

// Read consumes up to len(p) bytes; content is abstract (zeros are delivered).
func (f *GhostFile) Read(p []byte) (int, error) {
	if f.Closed {
		return 0, ErrClosed
	}
	if FaultPoint("drive.read") {
		return 0, NewError("injected read fault")
	}
	if f.Pos >= f.T.Len {
		return 0, io.EOF
	}
	n := int64(len(p))
	if f.T.Len-f.Pos < n {
		n = f.T.Len - f.Pos
	}
	f.Pos += n
	return int(Concretize(int(n))), nil
}

func (f *GhostFile) Write(p []byte) (int, error) {
	if f.Closed {
		return 0, ErrClosed
	}
	if !f.Writable {
		return 0, NewError("bad file descriptor")
	}
	if FaultPoint("drive.write") {
		return 0, NewError("injected write fault")
	}
	// raw writes only ever add zero padding in the code under test
	f.T.AddZeros(int64(len(p)))
	f.T.Appends++
	return len(p), nil
}

func (f *GhostFile) Close() error {
	if f.Closed {
		return ErrClosed
	}
	f.Closed = true
	if FaultPoint("drive.close") {
		return NewError("injected close fault")
	}
	return nil
}

func (f *GhostFile) Truncate(n int64) error {
	f.T.Truncates++
	f.T.Segs = nil
	f.T.Len = n
	return nil
}

// ---------- fault injection ----------

var (
	FaultBudget int
	FaultsUsed  int
	FaultLog    []string
)

// FaultPoint is a symbolic fault decision, limited by FaultBudget.
func FaultPoint(tag string) bool {
	if FaultsUsed >= FaultBudget {
		return false
	}
	if Bool("fault." + tag) {
		FaultsUsed++
		FaultLog = append(FaultLog, tag)
		return true
	}
	return false
}

// ---------- tar.Reader ----------

type trState struct {
	f     *GhostFile
	cur   *Seg  // member whose data is being read
	rem   int64 // unread data bytes of cur
	pad   int64
	err   error
	fresh bool
}

var readers = map[*tar.Reader]*trState{}

// LostPAX counts headers delivered without their PAX records (see next()).
var LostPAX int

//verif:replace archive/tar.NewReader
func TarNewReader(r io.Reader) *tar.Reader {
	tr := new(tar.Reader)
	gf, ok := r.(*GhostFile)
	if !ok {
		if of, ok2 := r.(*os.File); ok2 {
			gf = osFiles[of]
		}
	}
	if gf == nil {
		panic("verifmodel: tar.NewReader over an unmodelled reader")
	}
	readers[tr] = &trState{f: gf, fresh: true}
	return tr
}

var (
	ErrHeader        = NewError("archive/tar: invalid tar header")
	ErrUnexpectedEOF = io.ErrUnexpectedEOF
)

//verif:replace (*archive/tar.Reader).Next
func TarReaderNext(tr *tar.Reader) (*tar.Header, error) {
	st := readers[tr]
	if st.err != nil {
		return nil, st.err
	}
	Touch("Drive.tape", false)
	hdr, err := st.next()
	st.err = err
	return hdr, err
}

func (st *trState) next() (*tar.Header, error) {
	f := st.f
	t := f.T
	if FaultPoint("drive.read") {
		return nil, NewError("injected read fault")
	}
	// skip unread data and padding of the current member
	skip := st.rem + st.pad
	st.rem, st.pad, st.cur = 0, 0, nil
	if skip > 0 {
		if f.Pos+skip > t.Len {
			f.Pos = t.Len
			return nil, io.ErrUnexpectedEOF
		}
		f.Pos += skip
	}
	pos := f.Pos
	if pos >= t.Len {
		return nil, io.EOF
	}
	for _, s := range t.Segs {
		if s.Start >= t.Len {
			break
		}
		if s.End() == s.Start {
			continue // empty segment
		}
		if pos == s.Start && s.Kind == SegMember {
			hend := s.Start + 512*s.HBlocks
			if hend > t.Len {
				// header torn by the end of the file: either error is possible
				f.Pos = t.Len
				if Bool("torn.header.plainEOF") {
					return nil, io.EOF
				}
				return nil, io.ErrUnexpectedEOF
			}
			f.Pos = hend
			st.cur = s
			if headerOnly(s.Hdr.Typeflag) {
				st.rem, st.pad = 0, 0
			} else {
				st.rem = s.Size
				st.pad = s.End() - s.Start - 512*s.HBlocks - s.Size
			}
			h := *s.Hdr
			if s.Hdr.PAXRecords != nil {
				h.PAXRecords = map[string]string{}
				for k, v := range s.Hdr.PAXRecords {
					h.PAXRecords[k] = v
				}
			}
			return &h, nil
		}
		if s.Kind == SegMember && s.HBlocks > 1 && pos == s.Start+512*(s.HBlocks-1) && pos+512 <= t.Len {
			// a resynchronising reader that lands on the member's last header block parses the plain ustar
			// block: the entry is recognised (short names) but its PAX records are lost
			f.Pos = pos + 512
			st.cur = s
			if headerOnly(s.Hdr.Typeflag) {
				st.rem, st.pad = 0, 0
			} else {
				st.rem = s.Size
				st.pad = s.End() - s.Start - 512*s.HBlocks - s.Size
			}
			h := *s.Hdr
			h.PAXRecords = nil
			LostPAX++
			return &h, nil
		}
		if s.Kind != SegMember && pos >= s.Start && pos < s.End() && (pos-s.Start)&511 == 0 {
			// inside a run of zero blocks (runs of adjacent zero segments are not merged: a trailer is
			// always followed by a member or the end of the file in the tapes harnesses build)
			zend := s.End()
			if zend-pos >= 1024 {
				if pos+1024 > t.Len {
					f.Pos = t.Len
					return nil, io.ErrUnexpectedEOF
				}
				f.Pos = pos + 1024
				return nil, io.EOF
			}
			// a single zero block, then whatever follows
			if pos+1024 > t.Len {
				f.Pos = t.Len
				return nil, io.ErrUnexpectedEOF
			}
			f.Pos = pos + 1024
			return nil, ErrHeader
		}
	}
	// not at a structural boundary: garbage. One block is consumed and a header error reported.
	if pos+512 > t.Len {
		f.Pos = t.Len
		return nil, io.ErrUnexpectedEOF
	}
	f.Pos = pos + 512
	return nil, ErrHeader
}

func headerOnly(flag byte) bool {
	switch flag {
	case tar.TypeLink, tar.TypeSymlink, tar.TypeChar, tar.TypeBlock, tar.TypeDir, tar.TypeFifo:
		return true
	}
	return false
}

//verif:replace (*archive/tar.Reader).Read
func TarReaderRead(tr *tar.Reader, p []byte) (int, error) {
	st := readers[tr]
	if st.err != nil {
		return 0, st.err
	}
	if st.cur == nil || st.rem == 0 {
		return 0, io.EOF
	}
	if FaultPoint("drive.read") {
		return 0, NewError("injected read fault")
	}
	f := st.f
	n := int64(len(p))
	if st.rem < n {
		n = st.rem
	}
	if f.T.Len-f.Pos < n {
		n = f.T.Len - f.Pos
		if n <= 0 {
			st.err = io.ErrUnexpectedEOF
			return 0, io.ErrUnexpectedEOF
		}
	}
	nn := Concretize(int(n))
	if st.cur.Data != nil {
		off := int(st.cur.Size - st.rem)
		copy(p[:nn], st.cur.Data[off:off+nn])
	}
	f.Pos += int64(nn)
	st.rem -= int64(nn)
	if st.rem == 0 {
		return nn, io.EOF
	}
	return nn, nil
}

// skipAll consumes the rest of the current member's data without materialising it (io.Copy to Discard).
func (st *trState) skipAll() (int64, error) {
	if st.err != nil {
		return 0, st.err
	}
	if st.cur == nil || st.rem == 0 {
		return 0, nil
	}
	if FaultPoint("drive.read") {
		return 0, NewError("injected read fault")
	}
	f := st.f
	n := st.rem
	if f.T.Len-f.Pos < n {
		got := f.T.Len - f.Pos
		if got < 0 {
			got = 0
		}
		f.Pos = f.T.Len
		st.rem -= got
		st.err = io.ErrUnexpectedEOF
		return got, io.ErrUnexpectedEOF
	}
	f.Pos += n
	st.rem = 0
	return n, nil
}

// ---------- tar.Writer ----------

type twState struct {
	f      *GhostFile
	cur    *Seg
	err    error
	closed bool
}

var writers = map[*tar.Writer]*twState{}

//verif:replace archive/tar.NewWriter
func TarNewWriter(w io.Writer) *tar.Writer {
	tw := new(tar.Writer)
	gf, ok := w.(*GhostFile)
	if !ok {
		if of, ok2 := w.(*os.File); ok2 {
			gf = osFiles[of]
		}
	}
	if gf == nil {
		panic("verifmodel: tar.NewWriter over an unmodelled writer")
	}
	writers[tw] = &twState{f: gf}
	return tw
}

var (
	ErrWriteTooLong    = NewError("archive/tar: write too long")
	ErrWriteAfterClose = NewError("archive/tar: write after close")
	ErrMissedWriting   = NewError("archive/tar: missed writing bytes")
)

// ghost log of everything handed to the tar writer (C05/C09)
type WrittenHeader struct {
	Hdr  tar.Header
	Seg  *Seg
	Size int64
}

var HeadersWritten []*WrittenHeader

// PlainDataWrites counts tar data writes made while no encrypting writer was forwarding ciphertext.
var PlainDataWrites int

func (st *twState) finish() error {
	if st.cur != nil {
		if st.cur.Written < st.cur.Size {
			return ErrMissedWriting
		}
		st.cur.Open = false
		st.f.T.Len = st.cur.End()
		st.cur = nil
	}
	return nil
}

//verif:replace (*archive/tar.Writer).WriteHeader
func TarWriterWriteHeader(tw *tar.Writer, hdr *tar.Header) error {
	st := writers[tw]
	if st.closed {
		return ErrWriteAfterClose
	}
	if st.err != nil {
		return st.err
	}
	Touch("Drive.tape", true)
	if err := st.finish(); err != nil {
		st.err = err
		return err
	}
	if st.f.Closed || !st.f.Writable {
		return ErrClosed
	}
	if FaultPoint("drive.write") {
		st.err = NewError("injected write fault")
		return st.err
	}
	if hdr.Size < 0 {
		return ErrHeader
	}
	if len(hdr.PAXRecords) > 0 && (hdr.Format == tar.FormatUSTAR || hdr.Format == tar.FormatGNU) {
		// archive/tar: "cannot encode header: Format specifies USTAR; and only PAX supports PAXRecords" (probed natively)
		return NewError("archive/tar: cannot encode header: only PAX supports PAXRecords")
	}
	t := st.f.T
	hb := int64(Int("tw.hblocks", 1, 8))
	Assume(hb != 2)
	if len(hdr.PAXRecords) > 0 || hdr.Format == tar.FormatPAX {
		// PAX records (STFS action records, or the sub-second mtime every STFS-written header has) take an
		// extended-header block and a data block in front of the ustar block
		Assume(hb >= 3)
	}
	h := *hdr
	if hdr.PAXRecords != nil {
		h.PAXRecords = map[string]string{}
		for k, v := range hdr.PAXRecords {
			h.PAXRecords[k] = v
		}
	}
	size := hdr.Size
	if headerOnly(hdr.Typeflag) {
		size = 0
	}
	s := &Seg{Kind: SegMember, Start: t.Len, HBlocks: hb, Size: size, Hdr: &h, Open: true, Data: []byte{}}
	t.Segs = append(t.Segs, s)
	t.Len = s.End()
	t.Appends++
	st.cur = s
	HeadersWritten = append(HeadersWritten, &WrittenHeader{Hdr: h, Seg: s, Size: size})
	return nil
}

//verif:replace (*archive/tar.Writer).Write
func TarWriterWrite(tw *tar.Writer, p []byte) (int, error) {
	st := writers[tw]
	if st.closed {
		return 0, ErrWriteAfterClose
	}
	if st.err != nil {
		return 0, st.err
	}
	if st.cur == nil {
		if len(p) == 0 {
			return 0, nil
		}
		return 0, ErrWriteTooLong
	}
	if FaultPoint("drive.write") {
		st.err = NewError("injected write fault")
		return 0, st.err
	}
	n := int64(len(p))
	rem := st.cur.Size - st.cur.Written
	tooLong := false
	if n > rem {
		n = rem
		tooLong = true
	}
	nn := Concretize(int(n))
	if InsideEnc == 0 {
		PlainDataWrites++ // bytes that reach the tape without passing through an encrypting writer (C09)
	}
	st.cur.Data = append(st.cur.Data, p[:nn]...)
	st.cur.Written += int64(nn)
	st.f.T.Len = st.cur.End()
	st.f.T.Appends++
	if tooLong {
		return nn, ErrWriteTooLong
	}
	return nn, nil
}

//verif:replace (*archive/tar.Writer).Flush
func TarWriterFlush(tw *tar.Writer) error {
	st := writers[tw]
	if st.err != nil {
		return st.err
	}
	return st.finish()
}

//verif:replace (*archive/tar.Writer).Close
func TarWriterClose(tw *tar.Writer) error {
	st := writers[tw]
	if st.closed {
		return nil
	}
	if st.err != nil {
		return st.err
	}
	if err := st.finish(); err != nil {
		st.err = err
		return err
	}
	if FaultPoint("drive.write") {
		st.err = NewError("injected write fault")
		return st.err
	}
	st.f.T.AddTrailer()
	st.f.T.Appends++
	st.closed = true
	return nil
}

// ---------- io.Copy ----------

// IoCopy replaces io.Copy: same contract; copying a tar member to io.Discard skips without reading.
//
// IoCopyChunk stands for io.Copy's internal 32 KiB buffer: the model copies in chunks of 64 bytes, so that
// chunk boundaries (which chunk-sensitive encoders see) exist for contents of more than 64 bytes.
const IoCopyChunk = 64

//verif:replace io.Copy
func IoCopy(dst io.Writer, src io.Reader) (int64, error) {
	return ioCopyWith(dst, src, make([]byte, IoCopyChunk))
}

func ioCopyWith(dst io.Writer, src io.Reader, buf []byte) (int64, error) {
	if tr, ok := src.(*tar.Reader); ok && dst == io.Discard {
		if st := readers[tr]; st != nil {
			return st.skipAll()
		}
	}
	var written int64
	for {
		nr, er := src.Read(buf)
		if nr > 0 {
			nw, ew := dst.Write(buf[0:nr])
			if nw < 0 || nr < nw {
				nw = 0
				if ew == nil {
					ew = NewError("invalid write result")
				}
			}
			written += int64(nw)
			if ew != nil {
				return written, ew
			}
			if nr != nw {
				return written, io.ErrShortWrite
			}
		}
		if er != nil {
			if er != io.EOF {
				return written, er
			}
			return written, nil
		}
	}
}

//verif:replace io.CopyBuffer
func IoCopyBuffer(dst io.Writer, src io.Reader, buf []byte) (int64, error) {
	if buf != nil && len(buf) == 0 {
		panic("empty buffer in CopyBuffer")
	}
	if buf == nil {
		buf = make([]byte, IoCopyChunk)
	}
	return ioCopyWith(dst, src, buf)
}

// ---------- os.File over ghost tapes ----------

var (
	osFiles = map[*os.File]*GhostFile{}
	GhostFS = map[string]*Tape{}
)
