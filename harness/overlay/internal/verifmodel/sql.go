package verifmodel

import (
	"database/sql"

	models "github.com/pojntfx/stfs/internal/db/sqlite/models/metadata"
)

// SQLResult is what the SQL model (M1, implemented natively in the engine: /verif/engine/sqlmodel.go)
// returns from ExecContext.
type SQLResult struct{ N int64 }

func (r SQLResult) LastInsertId() (int64, error) { return 0, nil }
func (r SQLResult) RowsAffected() (int64, error) { return r.N, nil }

// Table access for harnesses (engine intrinsics; the native bodies are only placeholders).
func TableInsert(db *sql.DB, row *models.Header) { panic("symbolic only") }
func TableLen(db *sql.DB) int                    { panic("symbolic only") }
func TableRow(db *sql.DB, i int) *models.Header  { panic("symbolic only") }
func TableWrites(db *sql.DB) int                 { panic("symbolic only") }
func TableClone(src, dst *sql.DB)                { panic("symbolic only") }
