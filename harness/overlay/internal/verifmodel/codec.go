package verifmodel

import (
	"compress/gzip"
	"fmt"
	"io"

	"github.com/klauspost/compress/zstd"
)

// M3: compression codecs (gzip, zstandard) as opaque invertible stream transforms. The compressed
// stream is [8-byte stream id][one unconstrained byte per input byte][4-byte end marker written by Close];
// its length is a deterministic function of the input length, so the two-pass write sees the same size
// twice. A decoder returns the recorded input of the stream whose id it reads and reports
// io.ErrUnexpectedEOF if the end marker is missing (the compressor was not closed before the stream was
// handed on). gzip reads its header eagerly (empty input is an error at construction); zstandard is lazy
// (empty input is an empty stream). Other codecs are not modelled (harnesses do not select them).

type CodecLog struct {
	Format string
	Plain  []byte
	Closed bool
}

var (
	Codecs    []*CodecLog
	codecByID = map[string]*CodecLog{}
)

type cmpWriter struct {
	dst    io.Writer
	log    *CodecLog
	id     string
	header bool
	closed bool
}

func newCmpWriter(dst io.Writer, format string) *cmpWriter {
	l := &CodecLog{Format: format}
	id := fmt.Sprintf("\x00CMP#%d##", len(Codecs))[:8]
	Codecs = append(Codecs, l)
	codecByID[id] = l
	return &cmpWriter{dst: dst, log: l, id: id}
}

func (w *cmpWriter) write(p []byte) (int, error) {
	if w.closed {
		return 0, NewError("write to closed compressor")
	}
	if FaultPoint("codec.write") {
		return 0, NewError("injected compressor fault")
	}
	if !w.header {
		w.header = true
		if _, err := w.dst.Write([]byte(w.id)); err != nil {
			return 0, err
		}
	}
	w.log.Plain = append(w.log.Plain, p...)
	ct := make([]byte, len(p))
	for i := range ct {
		ct[i] = Byte("compressed", "")
	}
	if _, err := w.dst.Write(ct); err != nil {
		return 0, err
	}
	return len(p), nil
}

func (w *cmpWriter) close() error {
	if w.closed {
		return nil
	}
	if !w.header {
		w.header = true
		if _, err := w.dst.Write([]byte(w.id)); err != nil {
			return err
		}
	}
	w.closed = true
	w.log.Closed = true
	_, err := w.dst.Write([]byte("\x00END"))
	return err
}

type cmpReader struct {
	src   io.Reader
	plain []byte
	off   int
	ok    bool
	err   error
	init  bool
	fmt   string
}

func (r *cmpReader) start() error {
	r.init = true
	hdr := make([]byte, 8)
	n, _ := io.ReadFull(r.src, hdr)
	if n == 0 {
		return io.EOF
	}
	if n < 8 || !IsConcrete(string(hdr)) {
		return NewError(r.fmt + ": invalid header")
	}
	l, ok := codecByID[string(hdr)]
	if !ok || l.Format != r.fmt {
		return NewError(r.fmt + ": invalid header")
	}
	// drain the compressed bytes
	buf := make([]byte, 64)
	total := 0
	for {
		k, err := r.src.Read(buf)
		total += k
		if err != nil {
			break
		}
	}
	r.plain = l.Plain
	r.ok = l.Closed && total == len(l.Plain)+4
	return nil
}

func (r *cmpReader) read(p []byte) (int, error) {
	if r.err != nil {
		return 0, r.err
	}
	if !r.init {
		if err := r.start(); err != nil {
			if err == io.EOF && r.fmt == "zstd" {
				return 0, io.EOF // an empty input is an empty zstandard stream
			}
			r.err = err
			return 0, err
		}
	}
	if r.off >= len(r.plain) {
		if !r.ok {
			return 0, io.ErrUnexpectedEOF
		}
		return 0, io.EOF
	}
	n := copy(p, r.plain[r.off:])
	r.off += n
	return n, nil
}

// ---- gzip ----

var (
	gzWriters = map[*gzip.Writer]*cmpWriter{}
	gzReaders = map[*gzip.Reader]*cmpReader{}
)

//verif:replace compress/gzip.NewWriterLevel
func GzipNewWriterLevel(w io.Writer, level int) (*gzip.Writer, error) {
	if level < gzip.HuffmanOnly || level > gzip.BestCompression {
		return nil, NewError("gzip: invalid compression level")
	}
	if FaultPoint("codec.new") {
		return nil, NewError("injected compressor constructor fault")
	}
	z := new(gzip.Writer)
	gzWriters[z] = newCmpWriter(w, "gzip")
	return z, nil
}

//verif:replace (*compress/gzip.Writer).Write
func GzipWriterWrite(z *gzip.Writer, p []byte) (int, error) { return gzWriters[z].write(p) }

//verif:replace (*compress/gzip.Writer).Flush
func GzipWriterFlush(z *gzip.Writer) error { return nil }

//verif:replace (*compress/gzip.Writer).Close
func GzipWriterClose(z *gzip.Writer) error { return gzWriters[z].close() }

//verif:replace compress/gzip.NewReader
func GzipNewReader(r io.Reader) (*gzip.Reader, error) {
	cr := &cmpReader{src: r, fmt: "gzip"}
	if err := cr.start(); err != nil {
		return nil, err
	}
	z := new(gzip.Reader)
	gzReaders[z] = cr
	return z, nil
}

//verif:replace (*compress/gzip.Reader).Read
func GzipReaderRead(z *gzip.Reader, p []byte) (int, error) { return gzReaders[z].read(p) }

//verif:replace (*compress/gzip.Reader).Close
func GzipReaderClose(z *gzip.Reader) error { return nil }

// ---- zstandard ----

var (
	zsWriters = map[*zstd.Encoder]*cmpWriter{}
	zsReaders = map[*zstd.Decoder]*cmpReader{}
)

//verif:replace github.com/klauspost/compress/zstd.WithEncoderLevel
func ZstdWithEncoderLevel(l zstd.EncoderLevel) zstd.EOption { return nil }

//verif:replace github.com/klauspost/compress/zstd.WithWindowSize
func ZstdWithWindowSize(n int) zstd.EOption { return nil }

//verif:replace github.com/klauspost/compress/zstd.NewWriter
func ZstdNewWriter(w io.Writer, opts ...zstd.EOption) (*zstd.Encoder, error) {
	if FaultPoint("codec.new") {
		return nil, NewError("injected compressor constructor fault")
	}
	e := new(zstd.Encoder)
	zsWriters[e] = newCmpWriter(w, "zstd")
	return e, nil
}

//verif:replace (*github.com/klauspost/compress/zstd.Encoder).Write
func ZstdEncoderWrite(e *zstd.Encoder, p []byte) (int, error) { return zsWriters[e].write(p) }

//verif:replace (*github.com/klauspost/compress/zstd.Encoder).Flush
func ZstdEncoderFlush(e *zstd.Encoder) error { return nil }

//verif:replace (*github.com/klauspost/compress/zstd.Encoder).Close
func ZstdEncoderClose(e *zstd.Encoder) error { return zsWriters[e].close() }

//verif:replace github.com/klauspost/compress/zstd.NewReader
func ZstdNewReader(r io.Reader, opts ...zstd.DOption) (*zstd.Decoder, error) {
	d := new(zstd.Decoder)
	zsReaders[d] = &cmpReader{src: r, fmt: "zstd"}
	return d, nil
}

//verif:replace (*github.com/klauspost/compress/zstd.Decoder).Read
func ZstdDecoderRead(d *zstd.Decoder, p []byte) (int, error) { return zsReaders[d].read(p) }
