package verifmodel

import (
	"compress/gzip"
	"context"
	"fmt"
	"io"

	"github.com/andybalholm/brotli"
	"github.com/cosnicolaou/pbzip2"
	"github.com/dsnet/compress/bzip2"
	"github.com/klauspost/compress/zstd"
	"github.com/klauspost/pgzip"
	"github.com/pierrec/lz4/v4"
)

// M3: compression codecs (gzip, parallel gzip, lz4, zstandard, brotli, bzip2 and its parallel reader) as
// opaque invertible stream transforms. The compressed
// stream is [8-byte stream id][one unconstrained byte per input byte][4-byte end marker written by Close];
// its length is a deterministic function of the input length, so the two-pass write sees the same size
// twice. A decoder returns the recorded input of the stream whose id it reads and reports
// io.ErrUnexpectedEOF if the end marker is missing (the compressor was not closed before the stream was
// handed on). What the real libraries do with an empty input and what they emit for an empty plain text was
// probed natively: gzip and pgzip read their header eagerly (empty input is an error at construction);
// zstandard, lz4 and brotli are lazy and treat an empty input as an empty stream; bzip2/pbzip2 are lazy and
// report an error on the first Read. Every codec but zstandard emits a non-empty frame for an empty plain text.

type CodecLog struct {
	Format string
	Plain  []byte
	Closed bool
	Frames int // extra bytes emitted because of how the input was chunked (brotli)
	// Elided: plain bytes for which nothing was emitted (a long run of zero bytes under zstandard, brotli or bzip2
	// compresses to next to nothing: ratios far beyond 1000:1, probed natively)
	Elided int
}

var (
	Codecs    []*CodecLog
	codecByID = map[string]*CodecLog{}
)

type cmpWriter struct {
	dst    io.Writer
	log    *CodecLog
	id     string
	header bool
	closed bool
}

func newCmpWriter(dst io.Writer, format string) *cmpWriter {
	l := &CodecLog{Format: format}
	id := fmt.Sprintf("\x00CMP#%d##", len(Codecs))[:8]
	Codecs = append(Codecs, l)
	codecByID[id] = l
	return &cmpWriter{dst: dst, log: l, id: id}
}

func (w *cmpWriter) write(p []byte) (int, error) {
	if w.closed {
		return 0, NewError("write to closed compressor")
	}
	if FaultPoint("codec.write") {
		return 0, NewError("injected compressor fault")
	}
	if !w.header {
		w.header = true
		if _, err := w.dst.Write([]byte(w.id)); err != nil {
			return 0, err
		}
	}
	w.log.Plain = append(w.log.Plain, p...)
	if w.log.Format == "brotli" {
		// andybalholm/brotli emits a meta-block per Write: the compressed length depends on the chunking
		w.log.Frames++
		if _, err := w.dst.Write([]byte{Byte("compressed", "")}); err != nil {
			return 0, err
		}
	}
	if len(p) >= 64 && (w.log.Format == "zstd" || w.log.Format == "brotli" || w.log.Format == "bzip2") && IsConcrete(string(p)) {
		zeros := true
		for _, b := range p {
			if b != 0 {
				zeros = false
			}
		}
		if zeros {
			w.log.Elided += len(p)
			return len(p), nil
		}
	}
	ct := make([]byte, len(p))
	for i := range ct {
		ct[i] = Byte("compressed", "")
	}
	if _, err := w.dst.Write(ct); err != nil {
		return 0, err
	}
	return len(p), nil
}

// flush: gzip, parallel gzip, zstandard and brotli emit bytes of their own on Flush (a sync marker / an empty block;
// probed natively), lz4 and bzip2 do not. The length of the stream therefore depends on how often Flush was called.
func (w *cmpWriter) flush() error {
	if w.closed {
		return nil
	}
	switch w.log.Format {
	case "gzip", "pgzip":
		if !w.header {
			w.header = true
			if _, err := w.dst.Write([]byte(w.id)); err != nil {
				return err
			}
		}
	case "zstd", "brotli":
		if !w.header {
			return nil
		}
	default:
		return nil
	}
	w.log.Frames++
	_, err := w.dst.Write([]byte{Byte("compressed", "")})
	return err
}

func (w *cmpWriter) close() error {
	if w.closed {
		return nil
	}
	if !w.header && w.log.Format == "zstd" {
		// klauspost/zstd emits nothing at all for an empty plain text
		w.closed = true
		w.log.Closed = true
		return nil
	}
	if !w.header {
		w.header = true
		if _, err := w.dst.Write([]byte(w.id)); err != nil {
			return err
		}
	}
	w.closed = true
	w.log.Closed = true
	_, err := w.dst.Write([]byte("\x00END"))
	return err
}

type cmpReader struct {
	src   io.Reader
	plain []byte
	off   int
	ok    bool
	err   error
	init  bool
	fmt   string
}

func (r *cmpReader) start() error {
	r.init = true
	hdr := make([]byte, 8)
	n, _ := io.ReadFull(r.src, hdr)
	if n == 0 {
		return io.EOF
	}
	if n < 8 || !IsConcrete(string(hdr)) {
		return NewError(r.fmt + ": invalid header")
	}
	l, ok := codecByID[string(hdr)]
	if !ok || l.Format != r.fmt {
		return NewError(r.fmt + ": invalid header")
	}
	// drain the compressed bytes
	buf := make([]byte, 64)
	total := 0
	for {
		k, err := r.src.Read(buf)
		total += k
		if err != nil {
			break
		}
	}
	r.plain = l.Plain
	r.ok = l.Closed && total == len(l.Plain)-l.Elided+l.Frames+4
	return nil
}

func (r *cmpReader) read(p []byte) (int, error) {
	if r.err != nil {
		return 0, r.err
	}
	if !r.init {
		if err := r.start(); err != nil {
			if err == io.EOF && (r.fmt == "zstd" || r.fmt == "lz4" || r.fmt == "brotli") {
				return 0, io.EOF // an empty input is an empty stream for these
			}
			if err == io.EOF {
				err = io.ErrUnexpectedEOF
			}
			r.err = err
			return 0, err
		}
	}
	if r.off >= len(r.plain) {
		if !r.ok {
			return 0, io.ErrUnexpectedEOF
		}
		return 0, io.EOF
	}
	n := copy(p, r.plain[r.off:])
	r.off += n
	return n, nil
}

// ---- gzip ----

var (
	gzWriters = map[*gzip.Writer]*cmpWriter{}
	gzReaders = map[*gzip.Reader]*cmpReader{}
)

//verif:replace compress/gzip.NewWriterLevel
func GzipNewWriterLevel(w io.Writer, level int) (*gzip.Writer, error) {
	if level < gzip.HuffmanOnly || level > gzip.BestCompression {
		return nil, NewError("gzip: invalid compression level")
	}
	if FaultPoint("codec.new") {
		return nil, NewError("injected compressor constructor fault")
	}
	z := new(gzip.Writer)
	gzWriters[z] = newCmpWriter(w, "gzip")
	return z, nil
}

//verif:replace (*compress/gzip.Writer).Write
func GzipWriterWrite(z *gzip.Writer, p []byte) (int, error) { return gzWriters[z].write(p) }

//verif:replace (*compress/gzip.Writer).Flush
func GzipWriterFlush(z *gzip.Writer) error { return gzWriters[z].flush() }

//verif:replace (*compress/gzip.Writer).Close
func GzipWriterClose(z *gzip.Writer) error { return gzWriters[z].close() }

//verif:replace compress/gzip.NewReader
func GzipNewReader(r io.Reader) (*gzip.Reader, error) {
	cr := &cmpReader{src: r, fmt: "gzip"}
	if err := cr.start(); err != nil {
		return nil, err
	}
	z := new(gzip.Reader)
	gzReaders[z] = cr
	return z, nil
}

//verif:replace (*compress/gzip.Reader).Read
func GzipReaderRead(z *gzip.Reader, p []byte) (int, error) { return gzReaders[z].read(p) }

//verif:replace (*compress/gzip.Reader).Close
func GzipReaderClose(z *gzip.Reader) error { return nil }

// ---- zstandard ----

var (
	zsWriters = map[*zstd.Encoder]*cmpWriter{}
	zsReaders = map[*zstd.Decoder]*cmpReader{}
)

//verif:replace github.com/klauspost/compress/zstd.WithEncoderLevel
func ZstdWithEncoderLevel(l zstd.EncoderLevel) zstd.EOption { return nil }

//verif:replace github.com/klauspost/compress/zstd.WithWindowSize
func ZstdWithWindowSize(n int) zstd.EOption { return nil }

//verif:replace github.com/klauspost/compress/zstd.NewWriter
func ZstdNewWriter(w io.Writer, opts ...zstd.EOption) (*zstd.Encoder, error) {
	if FaultPoint("codec.new") {
		return nil, NewError("injected compressor constructor fault")
	}
	e := new(zstd.Encoder)
	zsWriters[e] = newCmpWriter(w, "zstd")
	return e, nil
}

//verif:replace (*github.com/klauspost/compress/zstd.Encoder).Write
func ZstdEncoderWrite(e *zstd.Encoder, p []byte) (int, error) { return zsWriters[e].write(p) }

//verif:replace (*github.com/klauspost/compress/zstd.Encoder).Flush
func ZstdEncoderFlush(e *zstd.Encoder) error { return zsWriters[e].flush() }

//verif:replace (*github.com/klauspost/compress/zstd.Encoder).Close
func ZstdEncoderClose(e *zstd.Encoder) error { return zsWriters[e].close() }

//verif:replace github.com/klauspost/compress/zstd.NewReader
func ZstdNewReader(r io.Reader, opts ...zstd.DOption) (*zstd.Decoder, error) {
	d := new(zstd.Decoder)
	zsReaders[d] = &cmpReader{src: r, fmt: "zstd"}
	return d, nil
}

//verif:replace (*github.com/klauspost/compress/zstd.Decoder).Read
func ZstdDecoderRead(d *zstd.Decoder, p []byte) (int, error) { return zsReaders[d].read(p) }


// ---- parallel gzip ----

var (
	pgWriters = map[*pgzip.Writer]*cmpWriter{}
	pgReaders = map[*pgzip.Reader]*cmpReader{}
)

//verif:replace github.com/klauspost/pgzip.NewWriterLevel
func PgzipNewWriterLevel(w io.Writer, level int) (*pgzip.Writer, error) {
	if level < pgzip.ConstantCompression || level > pgzip.BestCompression {
		return nil, NewError("pgzip: invalid compression level")
	}
	if FaultPoint("codec.new") {
		return nil, NewError("injected compressor constructor fault")
	}
	z := new(pgzip.Writer)
	pgWriters[z] = newCmpWriter(w, "pgzip")
	return z, nil
}

//verif:replace (*github.com/klauspost/pgzip.Writer).Write
func PgzipWriterWrite(z *pgzip.Writer, p []byte) (int, error) { return pgWriters[z].write(p) }

//verif:replace (*github.com/klauspost/pgzip.Writer).Flush
func PgzipWriterFlush(z *pgzip.Writer) error { return pgWriters[z].flush() }

//verif:replace (*github.com/klauspost/pgzip.Writer).Close
func PgzipWriterClose(z *pgzip.Writer) error { return pgWriters[z].close() }

//verif:replace github.com/klauspost/pgzip.NewReader
func PgzipNewReader(r io.Reader) (*pgzip.Reader, error) {
	cr := &cmpReader{src: r, fmt: "pgzip"}
	if err := cr.start(); err != nil {
		return nil, err
	}
	z := new(pgzip.Reader)
	pgReaders[z] = cr
	return z, nil
}

//verif:replace (*github.com/klauspost/pgzip.Reader).Read
func PgzipReaderRead(z *pgzip.Reader, p []byte) (int, error) { return pgReaders[z].read(p) }

//verif:replace (*github.com/klauspost/pgzip.Reader).Close
func PgzipReaderClose(z *pgzip.Reader) error { return nil }

// ---- lz4 ----

var (
	lzWriters = map[*lz4.Writer]*cmpWriter{}
	lzReaders = map[*lz4.Reader]*cmpReader{}
)

//verif:replace github.com/pierrec/lz4/v4.CompressionLevelOption
func Lz4CompressionLevelOption(l lz4.CompressionLevel) lz4.Option { return nil }

//verif:replace github.com/pierrec/lz4/v4.ConcurrencyOption
func Lz4ConcurrencyOption(n int) lz4.Option { return nil }

//verif:replace github.com/pierrec/lz4/v4.BlockSizeOption
func Lz4BlockSizeOption(b lz4.BlockSize) lz4.Option { return nil }

//verif:replace github.com/pierrec/lz4/v4.NewWriter
func Lz4NewWriter(w io.Writer) *lz4.Writer {
	z := new(lz4.Writer)
	lzWriters[z] = newCmpWriter(w, "lz4")
	return z
}

//verif:replace (*github.com/pierrec/lz4/v4.Writer).Apply
func Lz4WriterApply(z *lz4.Writer, opts ...lz4.Option) error {
	if FaultPoint("codec.new") {
		return NewError("injected compressor constructor fault")
	}
	return nil
}

//verif:replace (*github.com/pierrec/lz4/v4.Writer).Write
func Lz4WriterWrite(z *lz4.Writer, p []byte) (int, error) { return lzWriters[z].write(p) }

//verif:replace (*github.com/pierrec/lz4/v4.Writer).Close
func Lz4WriterClose(z *lz4.Writer) error { return lzWriters[z].close() }

//verif:replace github.com/pierrec/lz4/v4.NewReader
func Lz4NewReader(r io.Reader) *lz4.Reader {
	z := new(lz4.Reader)
	lzReaders[z] = &cmpReader{src: r, fmt: "lz4"}
	return z
}

//verif:replace (*github.com/pierrec/lz4/v4.Reader).Apply
func Lz4ReaderApply(z *lz4.Reader, opts ...lz4.Option) error { return nil }

//verif:replace (*github.com/pierrec/lz4/v4.Reader).Read
func Lz4ReaderRead(z *lz4.Reader, p []byte) (int, error) { return lzReaders[z].read(p) }

// ---- brotli ----

var (
	brWriters = map[*brotli.Writer]*cmpWriter{}
	brReaders = map[*brotli.Reader]*cmpReader{}
)

//verif:replace github.com/andybalholm/brotli.NewWriterLevel
func BrotliNewWriterLevel(w io.Writer, level int) *brotli.Writer {
	z := new(brotli.Writer)
	brWriters[z] = newCmpWriter(w, "brotli")
	return z
}

//verif:replace (*github.com/andybalholm/brotli.Writer).Write
func BrotliWriterWrite(z *brotli.Writer, p []byte) (int, error) { return brWriters[z].write(p) }

//verif:replace (*github.com/andybalholm/brotli.Writer).Flush
func BrotliWriterFlush(z *brotli.Writer) error { return brWriters[z].flush() }

//verif:replace (*github.com/andybalholm/brotli.Writer).Close
func BrotliWriterClose(z *brotli.Writer) error { return brWriters[z].close() }

//verif:replace github.com/andybalholm/brotli.NewReader
func BrotliNewReader(r io.Reader) *brotli.Reader {
	z := new(brotli.Reader)
	brReaders[z] = &cmpReader{src: r, fmt: "brotli"}
	return z
}

//verif:replace (*github.com/andybalholm/brotli.Reader).Read
func BrotliReaderRead(z *brotli.Reader, p []byte) (int, error) { return brReaders[z].read(p) }

// ---- bzip2 (dsnet writer and reader, cosnicolaou parallel reader) ----

var (
	bzWriters = map[*bzip2.Writer]*cmpWriter{}
	bzReaders = map[*bzip2.Reader]*cmpReader{}
)

//verif:replace github.com/dsnet/compress/bzip2.NewWriter
func Bzip2NewWriter(w io.Writer, conf *bzip2.WriterConfig) (*bzip2.Writer, error) {
	if conf != nil && (conf.Level < 0 || conf.Level > bzip2.BestCompression) {
		return nil, NewError("bzip2: invalid compression level")
	}
	if FaultPoint("codec.new") {
		return nil, NewError("injected compressor constructor fault")
	}
	z := new(bzip2.Writer)
	bzWriters[z] = newCmpWriter(w, "bzip2")
	return z, nil
}

//verif:replace (*github.com/dsnet/compress/bzip2.Writer).Write
func Bzip2WriterWrite(z *bzip2.Writer, p []byte) (int, error) { return bzWriters[z].write(p) }

//verif:replace (*github.com/dsnet/compress/bzip2.Writer).Close
func Bzip2WriterClose(z *bzip2.Writer) error { return bzWriters[z].close() }

//verif:replace github.com/dsnet/compress/bzip2.NewReader
func Bzip2NewReader(r io.Reader, conf *bzip2.ReaderConfig) (*bzip2.Reader, error) {
	z := new(bzip2.Reader)
	bzReaders[z] = &cmpReader{src: r, fmt: "bzip2"}
	return z, nil
}

//verif:replace (*github.com/dsnet/compress/bzip2.Reader).Read
func Bzip2ReaderRead(z *bzip2.Reader, p []byte) (int, error) { return bzReaders[z].read(p) }

//verif:replace (*github.com/dsnet/compress/bzip2.Reader).Close
func Bzip2ReaderClose(z *bzip2.Reader) error { return nil }

type pbzReader struct{ r *cmpReader }

func (p *pbzReader) Read(b []byte) (int, error) { return p.r.read(b) }

//verif:replace github.com/cosnicolaou/pbzip2.NewReader
func Pbzip2NewReader(ctx context.Context, rd io.Reader, opts ...pbzip2.ReaderOption) io.Reader {
	return &pbzReader{r: &cmpReader{src: rd, fmt: "bzip2"}}
}
