package verifmodel

import (
	"crypto"
	"encoding/base64"
	"fmt"
	"hash"
	"io"

	"aead.dev/minisign"
	"filippo.io/age"
	"github.com/ProtonMail/go-crypto/openpgp"
	"github.com/ProtonMail/go-crypto/openpgp/packet"
)

// ---------------------------------------------------------------------------------------------
// M3: cryptographic primitives and base64 as uninterpreted functions. Nothing about their strength
// is derived here; only the documented contracts are stated:
//   verify(pk, m, s)  is an unconstrained Boolean chosen by the solver per call, except that it is
//                     true for (pk, m, sign(sk, m)) pairs produced in the same run;
//   decoders (base64, packet reader) either fail (unconstrained) or return an opaque value;
//   dec(enc(x)) = x for ciphertext produced in the same run, decoding foreign input is unconstrained.
// Ghost state records which primitive was evaluated on what, so harnesses can assert that a nil
// result implies a successful primitive evaluation.
// ---------------------------------------------------------------------------------------------

type VerifyEvent struct {
	Format    string
	Message   string
	Signature string // opaque decoded-signature token
	Result    bool
	Key       interface{}
}

var VerifyEvents []*VerifyEvent

// ---------- base64 ----------

var (
	b64Decoded = map[string][]byte{} // encoded token -> bytes
	b64Count   int
)

//verif:replace (*encoding/base64.Encoding).EncodeToString
func B64EncodeToString(enc *base64.Encoding, src []byte) string {
	b64Count++
	tok := fmt.Sprintf("\x00B64#%d", b64Count)
	cp := make([]byte, len(src))
	copy(cp, src)
	b64Decoded[tok] = cp
	return tok
}

//verif:replace (*encoding/base64.Encoding).DecodeString
func B64DecodeString(enc *base64.Encoding, s string) ([]byte, error) {
	if !IsConcrete(s) {
		// foreign (attacker-controlled) text: may or may not be valid base64
		if Bool("b64.invalid") {
			return nil, NewError("illegal base64 data")
		}
		return []byte("\x00foreign-b64-payload"), nil
	}
	if s == "" {
		return []byte{}, nil
	}
	if b, ok := b64Decoded[s]; ok {
		cp := make([]byte, len(b))
		copy(cp, b)
		return cp, nil
	}
	if Bool("b64.invalid") {
		return nil, NewError("illegal base64 data")
	}
	return []byte("\x00foreign-b64-payload:" + s), nil
}

// ---------- minisign ----------

var minisignSigned = map[string]string{} // signature bytes (as string) -> message

//verif:replace aead.dev/minisign.Sign
func MinisignSign(priv minisign.PrivateKey, message []byte) []byte {
	sig := fmt.Sprintf("\x00MSIG#%d", len(minisignSigned)+1)
	minisignSigned[sig] = string(message)
	return []byte(sig)
}

//verif:replace aead.dev/minisign.Verify
func MinisignVerify(pub minisign.PublicKey, message, signature []byte) bool {
	res := false
	if IsConcrete(string(signature)) {
		if m, ok := minisignSigned[string(signature)]; ok && !ForeignKey {
			// a signature made in this run verifies exactly the message it was made over
			res = m == string(message)
		} else {
			res = Bool("minisign.verify")
		}
	} else {
		res = Bool("minisign.verify")
	}
	VerifyEvents = append(VerifyEvents, &VerifyEvent{Format: "minisign", Message: string(message), Signature: string(signature), Result: res, Key: pub})
	return res
}

// ForeignKey makes every verification/decryption behave as if performed with an unrelated key.
var ForeignKey bool

type msReader struct {
	src  io.Reader
	data []byte
	eof  bool
}

var msReaders = map[*minisign.Reader]*msReader{}

//verif:replace aead.dev/minisign.NewReader
func MinisignNewReader(r io.Reader) *minisign.Reader {
	mr := new(minisign.Reader)
	msReaders[mr] = &msReader{src: r}
	return mr
}

//verif:replace (*aead.dev/minisign.Reader).Read
func MinisignReaderRead(r *minisign.Reader, p []byte) (int, error) {
	st := msReaders[r]
	n, err := st.src.Read(p)
	st.data = append(st.data, p[:n]...)
	if err == io.EOF {
		st.eof = true
	}
	return n, err
}

//verif:replace (*aead.dev/minisign.Reader).Sign
func MinisignReaderSign(r *minisign.Reader, priv minisign.PrivateKey) []byte {
	st := msReaders[r]
	return MinisignSign(priv, st.data)
}

// StreamVerifyEvents records content verifications: how much had been read when Verify was called.
type StreamVerify struct {
	BytesSeen int
	SawEOF    bool
	Result    bool
}

var StreamVerifies []*StreamVerify

//verif:replace (*aead.dev/minisign.Reader).Verify
func MinisignReaderVerify(r *minisign.Reader, pub minisign.PublicKey, signature []byte) bool {
	st := msReaders[r]
	res := MinisignVerify(pub, st.data, signature)
	StreamVerifies = append(StreamVerifies, &StreamVerify{BytesSeen: len(st.data), SawEOF: st.eof, Result: res})
	return res
}

// ---------- OpenPGP signature verification ----------

type pktReader struct {
	src io.Reader
}

var pktReaders = map[*packet.Reader]*pktReader{}

//verif:replace github.com/ProtonMail/go-crypto/openpgp/packet.NewReader
func PacketNewReader(r io.Reader) *packet.Reader {
	pr := new(packet.Reader)
	pktReaders[pr] = &pktReader{src: r}
	return pr
}

//verif:replace (*github.com/ProtonMail/go-crypto/openpgp/packet.Reader).Next
func PacketReaderNext(r *packet.Reader) (packet.Packet, error) {
	if Bool("pgp.packet.unreadable") {
		return nil, NewError("openpgp: invalid data: tag byte does not have MSB set")
	}
	if Bool("pgp.packet.not_signature") {
		return new(packet.Compressed), nil
	}
	sig := new(packet.Signature)
	sig.Hash = crypto.SHA256
	// the issuer named in the packet is the attacker's choice: the recipient's key or one nobody holds
	id := PGPRecipientKeyID
	if Bool("pgp.packet.issuer_unknown") {
		id = PGPRecipientKeyID + 2
	}
	sig.IssuerKeyId = &id
	return sig, nil
}

// PGPRecipientKeyID is the key id of the primary key NewPGPRecipient builds.
const PGPRecipientKeyID = uint64(7)

// KeysById as documented: the keys of the ring (primary keys here; the rings built by the harnesses have no subkeys)
// whose id is the given one.
//
//verif:replace (github.com/ProtonMail/go-crypto/openpgp.EntityList).KeysById
func PGPKeysById(el openpgp.EntityList, id uint64) (keys []openpgp.Key) {
	for _, e := range el {
		if e.PrimaryKey != nil && e.PrimaryKey.KeyId == id {
			keys = append(keys, openpgp.Key{Entity: e, PublicKey: e.PrimaryKey})
		}
	}
	return
}

type GhostHash struct {
	Data []byte
}

func (h *GhostHash) Write(p []byte) (int, error) { h.Data = append(h.Data, p...); return len(p), nil }
func (h *GhostHash) Sum(b []byte) []byte         { return append(b, h.Data...) }
func (h *GhostHash) Reset()                      { h.Data = nil }
func (h *GhostHash) Size() int                   { return 32 }
func (h *GhostHash) BlockSize() int              { return 64 }

//verif:replace (crypto.Hash).New
func CryptoHashNew(h crypto.Hash) hash.Hash { return &GhostHash{} }

//verif:replace (*github.com/ProtonMail/go-crypto/openpgp/packet.PublicKey).VerifySignature
func PGPVerifySignature(pk *packet.PublicKey, signed hash.Hash, sig *packet.Signature) error {
	gh, _ := signed.(*GhostHash)
	res := Bool("pgp.verify")
	msg := ""
	if gh != nil {
		msg = string(gh.Data)
	}
	VerifyEvents = append(VerifyEvents, &VerifyEvent{Format: "pgp", Message: msg, Result: res, Key: pk})
	if res {
		return nil
	}
	return NewError("openpgp: invalid signature: hash tag doesn't match")
}

// NewPGPRecipient builds a key ring with one entity whose primary key is an opaque public key.
func NewPGPRecipient() openpgp.EntityList {
	e := &openpgp.Entity{PrimaryKey: &packet.PublicKey{KeyId: PGPRecipientKeyID}}
	return openpgp.EntityList{e}
}

// ---------- encryption (age / OpenPGP) as opaque invertible stream transforms ----------

type CipherLog struct {
	Format     string
	Plain      []byte
	Closed     bool
	Cipher     []byte
	WroteAfter bool
}

var (
	Ciphers    []*CipherLog
	InsideEnc  int // > 0 while an encrypting writer is forwarding ciphertext to its destination
	EncWrites  int
	cipherByID = map[string]*CipherLog{}
)

type encWriter struct {
	dst    io.Writer
	log    *CipherLog
	format string
	closed bool
	header bool
}

const encOverhead = 8

func (w *encWriter) emit(p []byte) error {
	InsideEnc++
	_, err := w.dst.Write(p)
	InsideEnc--
	EncWrites++
	return err
}

func (w *encWriter) Write(p []byte) (int, error) {
	if w.closed {
		return 0, NewError("write to closed encryptor")
	}
	if FaultPoint("codec.write") {
		return 0, NewError("injected encryptor fault")
	}
	if !w.header {
		w.header = true
		id := fmt.Sprintf("\x00ENC#%d#", len(Ciphers))
		for len(id) < encOverhead {
			id += "#"
		}
		cipherByID[id[:encOverhead]] = w.log
		if err := w.emit([]byte(id[:encOverhead])); err != nil {
			return 0, err
		}
	}
	w.log.Plain = append(w.log.Plain, p...)
	if w.format == "pgp" {
		// OpenPGP streams its literal data in partial-length chunks that follow the Write calls: the length of
		// the ciphertext depends on how the plain text was chunked (probed natively: the same content written
		// with 32 KiB and with 10 KiB writes gives different lengths). One frame byte per Write stands for that.
		if err := w.emit([]byte{Byte("ciphertext", "")}); err != nil {
			return 0, err
		}
	}
	// ciphertext bytes are unconstrained: one fresh byte per plaintext byte
	ct := make([]byte, len(p))
	for i := range ct {
		ct[i] = Byte("ciphertext", "")
	}
	w.log.Cipher = append(w.log.Cipher, ct...)
	if err := w.emit(ct); err != nil {
		return 0, err
	}
	return len(p), nil
}

func (w *encWriter) Close() error {
	if w.closed {
		return nil
	}
	if !w.header {
		w.header = true
		id := fmt.Sprintf("\x00ENC#%d#", len(Ciphers))
		for len(id) < encOverhead {
			id += "#"
		}
		cipherByID[id[:encOverhead]] = w.log
		if err := w.emit([]byte(id[:encOverhead])); err != nil {
			return err
		}
	}
	w.closed = true
	w.log.Closed = true
	return nil
}

func newEncWriter(dst io.Writer, format string) io.WriteCloser {
	l := &CipherLog{Format: format}
	w := &encWriter{dst: dst, log: l, format: format}
	Ciphers = append(Ciphers, l)
	return w
}

//verif:replace filippo.io/age.Encrypt
func AgeEncrypt(dst io.Writer, recipients ...age.Recipient) (io.WriteCloser, error) {
	if FaultPoint("codec.new") {
		return nil, NewError("injected encryptor constructor fault")
	}
	return newEncWriter(dst, "age"), nil
}

//verif:replace github.com/ProtonMail/go-crypto/openpgp.Encrypt
func PGPEncrypt(ciphertext io.Writer, to []*openpgp.Entity, signed *openpgp.Entity, hints *openpgp.FileHints, config *packet.Config) (io.WriteCloser, error) {
	if FaultPoint("codec.new") {
		return nil, NewError("injected encryptor constructor fault")
	}
	return newEncWriter(ciphertext, "pgp"), nil
}

type decReader struct {
	plain []byte
	off   int
}

func (r *decReader) Read(p []byte) (int, error) {
	if r.off >= len(r.plain) {
		return 0, io.EOF
	}
	n := copy(p, r.plain[r.off:])
	r.off += n
	return n, nil
}

func decryptFrom(src io.Reader, format string) (io.Reader, error) {
	hdr := make([]byte, encOverhead)
	n, _ := io.ReadFull(src, hdr)
	if n < encOverhead || !IsConcrete(string(hdr)) {
		return nil, NewError(format + ": no identity matched any of the recipients / malformed input")
	}
	l, ok := cipherByID[string(hdr)]
	if !ok || l.Format != format || ForeignKey {
		return nil, NewError(format + ": no identity matched any of the recipients")
	}
	// drain the ciphertext from the source so cursor positions are as in the real library
	buf := make([]byte, 64)
	for {
		_, err := src.Read(buf)
		if err != nil {
			break
		}
	}
	return &decReader{plain: l.Plain}, nil
}

//verif:replace filippo.io/age.Decrypt
func AgeDecrypt(src io.Reader, identities ...age.Identity) (io.Reader, error) {
	return decryptFrom(src, "age")
}

//verif:replace github.com/ProtonMail/go-crypto/openpgp.ReadMessage
func PGPReadMessage(r io.Reader, keyring openpgp.KeyRing, prompt openpgp.PromptFunction, config *packet.Config) (*openpgp.MessageDetails, error) {
	body, err := decryptFrom(r, "pgp")
	if err != nil {
		return nil, err
	}
	return &openpgp.MessageDetails{UnverifiedBody: body}, nil
}

// NewAgeRecipient / NewAgeIdentity give opaque keys of the right dynamic type.
func NewAgeRecipient() *age.X25519Recipient { return new(age.X25519Recipient) }
func NewAgeIdentity() *age.X25519Identity   { return new(age.X25519Identity) }
func NewMinisignPublicKey() minisign.PublicKey {
	var k minisign.PublicKey
	return k
}
func NewMinisignPrivateKey() minisign.PrivateKey {
	var k minisign.PrivateKey
	return k
}
