package verifmodel

import (
	"path"
	"strings"
)

func Harness_T00_smoke() {
	s := String("s", 1, 3, "a/.")
	c := path.Clean("/" + s)
	Assert("T00.clean_abs", strings.HasPrefix(c, "/"))
	Assert("T00.clean_idem", path.Clean(c) == c)
	x := Int("x", 0, 1000)
	y := x*2 + 1
	Assert("T00.odd", y%2 == 1)
	Assert("T00.wrong", y != 777)
	Cover("T00.big", y > 1500)
}
