package verifmodel

import (
	"io"
	"io/fs"
	"os"
	"os/user"
	"sync"
	"time"
)

// ---------- os: the drive file lives in GhostFS (M2) ----------

type ghostInfo struct {
	name    string
	size    int64
	regular bool
}

func (g ghostInfo) Name() string { return g.name }
func (g ghostInfo) Size() int64  { return g.size }
func (g ghostInfo) Mode() fs.FileMode {
	if g.regular {
		return 0o600
	}
	return fs.ModeDevice | fs.ModeCharDevice | 0o600
}
func (g ghostInfo) ModTime() time.Time { return time.Time{} }
func (g ghostInfo) IsDir() bool        { return false }
func (g ghostInfo) Sys() interface{}   { return nil }

// OpenLog records every open of the drive (C05: append-only discipline).
type OpenEvent struct {
	Name     string
	Flag     int
	Truncate bool
}

var OpenLog []*OpenEvent

//verif:replace os.Stat
func OsStat(name string) (os.FileInfo, error) {
	if FaultPoint("drive.stat") {
		return nil, NewError("injected stat fault")
	}
	t := GhostFS[name]
	if t == nil || !t.Exists {
		return nil, fs.ErrNotExist
	}
	return ghostInfo{name: name, size: t.Len, regular: true}, nil
}

//verif:replace os.OpenFile
func OsOpenFile(name string, flag int, perm os.FileMode) (*os.File, error) {
	if FaultPoint("drive.open") {
		return nil, NewError("injected open fault")
	}
	t := GhostFS[name]
	if t == nil || !t.Exists {
		if flag&os.O_CREATE == 0 {
			return nil, fs.ErrNotExist
		}
		if t == nil {
			t = NewTape(name)
			GhostFS[name] = t
		}
		t.Exists = true
	}
	OpenLog = append(OpenLog, &OpenEvent{Name: name, Flag: flag})
	f := new(os.File)
	gf := &GhostFile{T: t, Regular: true}
	if flag&(os.O_WRONLY|os.O_RDWR) != 0 {
		gf.Writable = true
		t.WriteOpens++
		if flag&os.O_APPEND != 0 {
			gf.Append = true
		} else {
			t.NonAppendOpens++
		}
	}
	if flag&os.O_TRUNC != 0 {
		gf.Truncate(0)
	}
	osFiles[f] = gf
	return f, nil
}

//verif:replace os.Open
func OsOpen(name string) (*os.File, error) { return OsOpenFile(name, os.O_RDONLY, 0) }

//verif:replace (*os.File).Close
func OsFileClose(f *os.File) error {
	if f == nil {
		return os.ErrInvalid
	}
	if t := tmpFiles[f]; t != nil {
		return t.close()
	}
	return osFiles[f].Close()
}

//verif:replace (*os.File).Truncate
func OsFileTruncate(f *os.File, n int64) error {
	if t := tmpFiles[f]; t != nil {
		return t.truncate(n)
	}
	gf := osFiles[f]
	if !gf.Writable {
		return NewError("truncate: invalid argument")
	}
	if FaultPoint("drive.truncate") {
		return NewError("injected truncate fault")
	}
	return gf.Truncate(n)
}

//verif:replace (*os.File).Seek
func OsFileSeek(f *os.File, off int64, whence int) (int64, error) {
	if f == nil {
		return 0, os.ErrInvalid
	}
	if t := tmpFiles[f]; t != nil {
		return t.seek(off, whence)
	}
	return osFiles[f].Seek(off, whence)
}

//verif:replace (*os.File).Read
func OsFileRead(f *os.File, p []byte) (int, error) {
	if t := tmpFiles[f]; t != nil {
		return t.read(p)
	}
	return osFiles[f].Read(p)
}

//verif:replace (*os.File).Write
func OsFileWrite(f *os.File, p []byte) (int, error) {
	if t := tmpFiles[f]; t != nil {
		return t.write(p)
	}
	return osFiles[f].Write(p)
}

//verif:replace (*os.File).Fd
func OsFileFd(f *os.File) uintptr { return 3 }

// ---------- os/user ----------

//verif:replace os/user.Current
func UserCurrent() (*user.User, error) {
	if FaultPoint("user.current") {
		return nil, NewError("injected user lookup fault")
	}
	return &user.User{Uid: "1000", Gid: "1000", Username: "verif", Name: "verif", HomeDir: "/home/verif"}, nil
}

//verif:replace (*os/user.User).GroupIds
func UserGroupIds(u *user.User) ([]string, error) { return []string{"1000"}, nil }

// ---------- sync.Mutex (M4, sequential mode) ----------

var (
	mutexHeld  = map[*sync.Mutex]int{}
	LockEvents []string
	LockErrors []string
)

// mutexOwner: the thread (0 = the harness thread, n = the n-th goroutine spawned) that holds the mutex.
var mutexOwner = map[*sync.Mutex]int{}

// MutexesOwnedBy lists the mutexes a thread holds right now.
func MutexesOwnedBy(thread int) []*sync.Mutex {
	var out []*sync.Mutex
	for m, held := range mutexHeld {
		if held != 0 && mutexOwner[m] == thread {
			out = append(out, m)
		}
	}
	return out
}

//verif:replace (*sync.Mutex).Lock
func MutexLock(m *sync.Mutex) {
	if mutexHeld[m] != 0 {
		// the calling thread would block forever: nobody else runs in sequential mode
		LockErrors = append(LockErrors, "lock of a mutex that is already held")
		Stop("deadlock: Lock on a mutex that is held and never released")
	}
	if ParkedHelperHolds(m, CurrentThread()) {
		// sequential mode ran the helper goroutine to completion, but in a real run it is still parked inside its
		// pipe write (nobody has read what it wrote) and keeps the locks it held there
		LockErrors = append(LockErrors, "lock of a mutex held by a helper goroutine that is parked on a pipe")
		Stop("deadlock: Lock on a mutex held by a helper goroutine that is parked on its pipe write")
	}
	mutexHeld[m] = 1
	mutexOwner[m] = CurrentThread()
	LockEvent(m, true)
}

//verif:replace (*sync.Mutex).Unlock
func MutexUnlock(m *sync.Mutex) {
	if mutexHeld[m] == 0 {
		LockErrors = append(LockErrors, "unlock of unlocked mutex")
		panic("sync: unlock of unlocked mutex")
	}
	mutexHeld[m] = 0
	LockEvent(m, false)
	runUnlockHook(m)
}

func runUnlockHook(m interface{}) {
	if UnlockHook != nil && m == UnlockHookMutex {
		if UnlockHookSkip > 0 {
			UnlockHookSkip--
		} else {
			h := UnlockHook
			UnlockHook = nil
			h()
		}
	}
}

// UnlockHook, when set, runs once right after a release of UnlockHookMutex (after UnlockHookSkip earlier releases):
// the place where another caller that was waiting for the mutex gets to run. C11 uses it to execute a second call at
// a lock boundary inside the first one — a real interleaving, whatever it does to the first call's control flow.
var (
	UnlockHook      func()
	UnlockHookMutex interface{} // *sync.Mutex or *sync.RWMutex
	UnlockHookSkip  int
)

//verif:replace (*sync.Mutex).TryLock
func MutexTryLock(m *sync.Mutex) bool {
	if mutexHeld[m] != 0 {
		return false
	}
	if ParkedHelperHolds(m, CurrentThread()) {
		return false
	}
	mutexHeld[m] = 1
	mutexOwner[m] = CurrentThread()
	LockEvent(m, true)
	return true
}

// MutexFree reports whether m is currently free.
func MutexFree(m *sync.Mutex) bool { return mutexHeld[m] == 0 }

// HeldMutexes counts mutexes currently held.
func HeldMutexes() int {
	n := 0
	for _, v := range mutexHeld {
		if v != 0 {
			n++
		}
	}
	for _, v := range rwHeld {
		if v != 0 {
			n++
		}
	}
	return n
}

// ---------- sync.Map (an association list per map object; keys compared with ==) ----------

type ghostSyncMap struct {
	keys []interface{}
	vals []interface{}
}

var syncMaps = map[*sync.Map]*ghostSyncMap{}

func syncMapOf(m *sync.Map) *ghostSyncMap {
	g := syncMaps[m]
	if g == nil {
		g = &ghostSyncMap{}
		syncMaps[m] = g
	}
	return g
}

func (g *ghostSyncMap) find(key interface{}) int {
	for i := range g.keys {
		if g.keys[i] == key {
			return i
		}
	}
	return -1
}

//verif:replace (*sync.Map).Load
func SyncMapLoad(m *sync.Map, key interface{}) (interface{}, bool) {
	g := syncMapOf(m)
	if i := g.find(key); i >= 0 {
		return g.vals[i], true
	}
	return nil, false
}

//verif:replace (*sync.Map).Store
func SyncMapStore(m *sync.Map, key, value interface{}) {
	g := syncMapOf(m)
	if i := g.find(key); i >= 0 {
		g.vals[i] = value
		return
	}
	g.keys = append(g.keys, key)
	g.vals = append(g.vals, value)
}

//verif:replace (*sync.Map).LoadOrStore
func SyncMapLoadOrStore(m *sync.Map, key, value interface{}) (interface{}, bool) {
	g := syncMapOf(m)
	if i := g.find(key); i >= 0 {
		return g.vals[i], true
	}
	g.keys = append(g.keys, key)
	g.vals = append(g.vals, value)
	return value, false
}

//verif:replace (*sync.Map).Delete
func SyncMapDelete(m *sync.Map, key interface{}) {
	g := syncMapOf(m)
	if i := g.find(key); i >= 0 {
		g.keys = append(g.keys[:i], g.keys[i+1:]...)
		g.vals = append(g.vals[:i], g.vals[i+1:]...)
	}
}

//verif:replace (*sync.Map).LoadAndDelete
func SyncMapLoadAndDelete(m *sync.Map, key interface{}) (interface{}, bool) {
	g := syncMapOf(m)
	if i := g.find(key); i >= 0 {
		v := g.vals[i]
		g.keys = append(g.keys[:i], g.keys[i+1:]...)
		g.vals = append(g.vals[:i], g.vals[i+1:]...)
		return v, true
	}
	return nil, false
}

//verif:replace (*sync.Map).Range
func SyncMapRange(m *sync.Map, f func(key, value interface{}) bool) {
	g := syncMapOf(m)
	for i := range g.keys {
		if !f(g.keys[i], g.vals[i]) {
			return
		}
	}
}

// ---------- sync.RWMutex: writers and readers as one mutex (sequential mode has one thread) ----------

var rwHeld = map[*sync.RWMutex]int{}

//verif:replace (*sync.RWMutex).Lock
func RWMutexLock(m *sync.RWMutex) {
	if rwHeld[m] != 0 {
		LockErrors = append(LockErrors, "lock of a rwmutex that is already held")
		Stop("deadlock: Lock on a RWMutex that is held and never released")
	}
	rwHeld[m] = -1
	LockEvent(m, true)
}

//verif:replace (*sync.RWMutex).Unlock
func RWMutexUnlock(m *sync.RWMutex) {
	if rwHeld[m] != -1 {
		panic("sync: Unlock of unlocked RWMutex")
	}
	rwHeld[m] = 0
	LockEvent(m, false)
	runUnlockHook(m)
}

//verif:replace (*sync.RWMutex).RLock
func RWMutexRLock(m *sync.RWMutex) {
	if rwHeld[m] < 0 {
		LockErrors = append(LockErrors, "rlock of a rwmutex that is write-locked")
		Stop("deadlock: RLock on a RWMutex that is write-locked and never released")
	}
	rwHeld[m]++
	LockEventShared(m, true)
}

//verif:replace (*sync.RWMutex).RUnlock
func RWMutexRUnlock(m *sync.RWMutex) {
	if rwHeld[m] <= 0 {
		panic("sync: RUnlock of unlocked RWMutex")
	}
	rwHeld[m]--
	LockEventShared(m, false)
}


// ---------- temporary files (the file-backed write cache): an ordinary byte-array file with an offset ----------

type tmpFile struct {
	name   string
	data   []byte
	pos    int64
	closed bool
}

var tmpFiles = map[*os.File]*tmpFile{}

// TmpFilesOpen counts temporary files that were created and not removed (C10/C15: nothing is left behind).
var TmpFilesCreated int

func (t *tmpFile) close() error {
	if t.closed {
		return os.ErrClosed
	}
	t.closed = true
	return nil
}

func (t *tmpFile) seek(off int64, whence int) (int64, error) {
	if t.closed {
		return 0, os.ErrClosed
	}
	var np int64
	switch whence {
	case 0:
		np = off
	case 1:
		np = t.pos + off
	case 2:
		np = int64(len(t.data)) + off
	default:
		return 0, os.ErrInvalid
	}
	if np < 0 {
		return 0, os.ErrInvalid
	}
	t.pos = np
	return np, nil
}

func (t *tmpFile) read(p []byte) (int, error) {
	if t.closed {
		return 0, os.ErrClosed
	}
	if len(p) == 0 {
		return 0, nil
	}
	if t.pos >= int64(len(t.data)) {
		return 0, io.EOF
	}
	n := copy(p, t.data[t.pos:])
	t.pos += int64(n)
	return n, nil
}

func (t *tmpFile) write(p []byte) (int, error) {
	if t.closed {
		return 0, os.ErrClosed
	}
	for int64(len(t.data)) < t.pos+int64(len(p)) {
		t.data = append(t.data, 0)
	}
	copy(t.data[t.pos:], p)
	t.pos += int64(len(p))
	return len(p), nil
}

func (t *tmpFile) truncate(n int64) error {
	if t.closed {
		return os.ErrClosed
	}
	if n < 0 {
		return os.ErrInvalid
	}
	for int64(len(t.data)) < n {
		t.data = append(t.data, 0)
	}
	t.data = t.data[:n]
	return nil
}

func newTmpFile(dir string) (*os.File, error) {
	if FaultPoint("tmpfile.create") {
		return nil, NewError("injected temp file fault")
	}
	f := new(os.File)
	TmpFilesCreated++
	tmpFiles[f] = &tmpFile{name: dir + "/tmp"}
	return f, nil
}

//verif:replace io/ioutil.TempFile
func IoutilTempFile(dir, pattern string) (*os.File, error) { return newTmpFile(dir) }

//verif:replace os.CreateTemp
func OsCreateTemp(dir, pattern string) (*os.File, error) { return newTmpFile(dir) }

//verif:replace os.MkdirAll
func OsMkdirAll(path string, perm os.FileMode) error { return nil }

//verif:replace os.Remove
func OsRemove(name string) error { return nil }

//verif:replace (*os.File).Name
func OsFileName(f *os.File) string {
	if t := tmpFiles[f]; t != nil {
		return t.name
	}
	return "/ghost"
}

//verif:replace (*os.File).Sync
func OsFileSync(f *os.File) error { return nil }

//verif:replace (*os.File).Stat
func OsFileStat(f *os.File) (os.FileInfo, error) {
	if t := tmpFiles[f]; t != nil {
		if t.closed {
			return nil, os.ErrClosed
		}
		return ghostInfo{name: t.name, size: int64(len(t.data)), regular: true}, nil
	}
	gf := osFiles[f]
	return ghostInfo{name: gf.T.Name, size: gf.T.Len, regular: true}, nil
}

// unicode.IsSpace, exactly as documented (Unicode's White_Space property), without the range tables the real function
// consults for characters beyond Latin-1 (package initialisers are not run by the executor).
//
//verif:replace unicode.IsSpace
func unicodeIsSpace(r rune) bool {
	switch r {
	case '\t', '\n', '\v', '\f', '\r', ' ', 0x85, 0xA0, 0x1680, 0x2028, 0x2029, 0x202f, 0x205f, 0x3000:
		return true
	}
	return r >= 0x2000 && r <= 0x200a
}
