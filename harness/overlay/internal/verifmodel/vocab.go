// Package verifmodel is injected into the STFS module by a go/packages overlay (never written to /repo).
// It holds the harness vocabulary and the environment models. Every function whose behaviour is
// symbolic is intercepted by the engine (/verif/engine); the bodies below are the native versions used
// when a harness is compiled and run natively to replay a solver witness against the real code.
package verifmodel

import (
	"encoding/json"
	"fmt"
	"os"
	"strings"
)

// ErrorString is the dynamic type of errors created by the engine.
type ErrorString struct{ S string }

func (e *ErrorString) Error() string { return e.S }

func NewError(msg string) error { return &ErrorString{msg} }

type witness struct {
	Ints    map[string]int64  `json:"ints"`
	Strings map[string]string `json:"strings"`
}

var (
	wit       *witness
	Failures  []string
	Covered   = map[string]bool{}
	KnownSeen = map[string]bool{}
	fresh     = map[string]int{}
)

func load() *witness {
	if wit != nil {
		return wit
	}
	wit = &witness{Ints: map[string]int64{}, Strings: map[string]string{}}
	if f := os.Getenv("VERIF_WITNESS"); f != "" {
		b, err := os.ReadFile(f)
		if err != nil {
			panic(err)
		}
		if err := json.Unmarshal(b, wit); err != nil {
			panic(err)
		}
	}
	return wit
}

func sanitize(s string) string {
	var sb strings.Builder
	for _, c := range s {
		if (c >= 'a' && c <= 'z') || (c >= 'A' && c <= 'Z') || (c >= '0' && c <= '9') || c == '_' || c == '.' {
			sb.WriteRune(c)
		} else {
			sb.WriteByte('_')
		}
	}
	return sb.String()
}

func name(tag string) string {
	n := fresh[tag]
	fresh[tag] = n + 1
	s := "v_" + sanitize(tag)
	if n > 0 {
		s = fmt.Sprintf("%s_%d", s, n)
	}
	return s
}

// ResetNative clears per-run native state (used by the replay driver).
func ResetNative() {
	fresh = map[string]int{}
	Failures = nil
}

func Symbolic() bool { return false }
func Tier() string   { return os.Getenv("VERIF_TIER") }
func Opt(k string) string { return os.Getenv("VERIF_OPT_" + k) }

func Int(tag string, lo, hi int) int {
	if lo == hi {
		return lo
	}
	return int(load().Ints[name(tag)])
}
func Int64(tag string, lo, hi int64) int64 {
	if lo == hi {
		return lo
	}
	return load().Ints[name(tag)]
}
func Bool(tag string) bool { return load().Ints[name(tag)] != 0 }
func Byte(tag string, alphabet string) byte {
	return byte(load().Ints[name(tag)])
}
func String(tag string, minLen, maxLen int, alphabet string) string {
	s := load().Strings[tag]
	for i := range s {
		name(fmt.Sprintf("%s.%d", tag, i))
	}
	return s
}
func Choice(tag string, n int) int { return int(load().Ints["choice:"+tag]) }
func Assume(c bool) {
	if !c {
		panic("verifmodel: assumption violated in native replay")
	}
}
func Assert(id string, c bool) {
	if !c {
		Failures = append(Failures, id)
	}
}
func Cover(id string, c bool) {
	if c {
		Covered[id] = true
	}
}
func Known(id string, c bool) {
	if c {
		KnownSeen[id] = true
	}
}
func Note(v interface{})               {}
func Sample(key string, v interface{}) {}
func Concretize(x int) int             { return x }
func SetUnwind(n int)                  {}
func UnwindIsViolation(id string)      {}

// Stop records a failed assertion with the given id text and ends the current path.
func Stop(msg string) { Failures = append(Failures, msg); panic("verifmodel.Stop: " + msg) }
func IsConcrete(v interface{}) bool    { return true }
func Ite(c bool, a, b int) int {
	if c {
		return a
	}
	return b
}
func And(a, b bool) bool     { return a && b }
func Or(a, b bool) bool      { return a || b }
func Implies(a, b bool) bool { return !a || b }
func HasPrefixT(s, prefix string) bool { return strings.HasPrefix(s, prefix) }

var ghost = map[string]interface{}{}

func Ghost(k string) interface{}       { return ghost[k] }
func SetGhost(k string, v interface{}) { ghost[k] = v }


// ---- C11: logical threads, lock events and the race query (engine intrinsics) ----

func CurrentThread() int                         { return 0 }
func ThreadBegin(id int)                         {}
func ThreadEnd()                                 {}
func LockEvent(m interface{}, acquire bool)      {}
func LockEventShared(m interface{}, acquire bool) {}
func HeldByCurrentThread() int                   { return 0 }
func RaceCheck(specs string)                     {}
func Touch(resource string, write bool)          {}
