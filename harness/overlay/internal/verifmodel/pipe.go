package verifmodel

import (
	"io"
	"sync"
)

// io.Pipe in sequential mode (M4): the writer side runs to completion before the reader continues,
// so the pipe is an unbounded queue. Blocking behaviour is not modelled here (C11's subject).

type pipeState struct {
	writerHeld int // locks the writing thread held at its last Write (what it keeps while parked on the pipe)
	writer     int           // the thread that wrote
	ghost      []*sync.Mutex // the mutexes that thread held at its last Write
	buf     []byte
	wclosed bool
	rclosed bool
	werr    error
	rerr    error
}

var (
	pipeR = map[*io.PipeReader]*pipeState{}
	pipeW = map[*io.PipeWriter]*pipeState{}
)

//verif:replace io.Pipe
func IoPipe() (*io.PipeReader, *io.PipeWriter) {
	r := new(io.PipeReader)
	w := new(io.PipeWriter)
	st := &pipeState{}
	pipeR[r] = st
	pipeW[w] = st
	return r, w
}

//verif:replace (*io.PipeReader).Read
func PipeReaderRead(r *io.PipeReader, p []byte) (int, error) {
	st := pipeR[r]
	if st.rclosed {
		return 0, io.ErrClosedPipe
	}
	if len(st.buf) > 0 {
		n := copy(p, st.buf)
		st.buf = st.buf[n:]
		return n, nil
	}
	if st.wclosed {
		if st.werr != nil {
			return 0, st.werr
		}
		return 0, io.EOF
	}
	Stop("deadlock: read on a pipe whose writer has stopped without closing it")
	return 0, io.EOF
}

//verif:replace (*io.PipeReader).Close
func PipeReaderClose(r *io.PipeReader) error {
	st := pipeR[r]
	st.rclosed = true
	return nil
}

//verif:replace (*io.PipeReader).CloseWithError
func PipeReaderCloseWithError(r *io.PipeReader, err error) error {
	st := pipeR[r]
	st.rclosed = true
	st.rerr = err
	return nil
}

//verif:replace (*io.PipeWriter).Write
func PipeWriterWrite(w *io.PipeWriter, p []byte) (int, error) {
	st := pipeW[w]
	if st.wclosed || st.rclosed {
		return 0, io.ErrClosedPipe
	}
	st.buf = append(st.buf, p...)
	st.writerHeld = HeldByCurrentThread()
	st.writer = CurrentThread()
	st.ghost = MutexesOwnedBy(st.writer)
	return len(p), nil
}

// ParkedHelperHolds: some pipe still holds unread data written by another thread than `asker` that held m at that
// write. In a real run that thread is blocked inside Write (io.Pipe hands data over synchronously) and keeps m.
func ParkedHelperHolds(m *sync.Mutex, asker int) bool {
	for _, st := range pipeR {
		if len(st.buf) == 0 || st.rclosed || st.writer == asker || st.writer == 0 {
			continue
		}
		for _, g := range st.ghost {
			if g == m {
				return true
			}
		}
	}
	return false
}

// PipesParkedWithLocks counts pipes that still hold unread data written by a thread that held locks at
// that write: in a real run that thread is parked inside Write, keeping those locks, until somebody reads.
func PipesParkedWithLocks() int {
	n := 0
	for _, st := range pipeR {
		if len(st.buf) > 0 && !st.rclosed && st.writerHeld > 0 {
			n++
		}
	}
	return n
}

//verif:replace (*io.PipeWriter).Close
func PipeWriterClose(w *io.PipeWriter) error {
	st := pipeW[w]
	st.wclosed = true
	return nil
}

//verif:replace (*io.PipeWriter).CloseWithError
func PipeWriterCloseWithError(w *io.PipeWriter, err error) error {
	st := pipeW[w]
	st.wclosed = true
	st.werr = err
	return nil
}
