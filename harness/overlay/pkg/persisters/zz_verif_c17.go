package persisters

import (
	"archive/tar"
	"context"

	models "github.com/pojntfx/stfs/internal/db/sqlite/models/metadata"
	vm "github.com/pojntfx/stfs/internal/verifmodel"
)

var c17Roots = []string{"", ".", "./", "/"}

// Harness_C17_spellings_map_to_one_stored_name: for every root shape the inference can produce for an
// archive rooted at a root spelling, '/d/f', 'd/f' and './d/f' are mapped to the same stored name, and the
// root itself is reached by every root spelling.
func Harness_C17_spellings_map_to_one_stored_name() {
	p := VerifNewPersister()
	root := c17Roots[vm.Choice("root", len(c17Roots))]
	p.VerifInsert(&models.Header{Name: root, Typeflag: tar.TypeDir, Paxrecords: "{}"})
	// Open()/GetRootPath cache the root before any other call; during a rebuild the cache is empty, which
	// is the same as the root "" (the rebuilt root row is stored under the empty name)
	p.VerifSetRoot(root)
	ctx := context.Background()
	d := VerifComponent("D", 2, "ab.")
	f := VerifComponent("F", 1, "ab.")
	rel := d + "/" + f
	a := p.getSanitizedPath(ctx, "/"+rel)
	b := p.getSanitizedPath(ctx, rel)
	c := p.getSanitizedPath(ctx, "./"+rel)
	vm.Assert("C17.absolute_and_relative_spelling_agree", a == b)
	vm.Assert("C17.dot_slash_spelling_agrees", b == c)
	for _, r := range c17Roots {
		vm.Assert("C17.root_spellings_reach_root", p.getSanitizedPath(ctx, r) == p.VerifRoot())
	}
	vm.Cover("C17.some_agreement", a == b)
}
