package persisters

import (
	"database/sql"

	models "github.com/pojntfx/stfs/internal/db/sqlite/models/metadata"
	vm "github.com/pojntfx/stfs/internal/verifmodel"
)

// Helpers that give harnesses in other packages access to the persister's table (M1).

func VerifNewPersister() *MetadataPersister {
	p := NewMetadataPersister("/ghost/index.sqlite")
	if err := p.sqlite.Open(); err != nil {
		panic("verif: cannot open ghost index")
	}
	return p
}

func (p *MetadataPersister) VerifDB() *sql.DB { return p.sqlite.DB }

func (p *MetadataPersister) VerifInsert(h *models.Header) { vm.TableInsert(p.sqlite.DB, h) }

func (p *MetadataPersister) VerifSetRoot(root string) { p.root = root }
func (p *MetadataPersister) VerifRoot() string        { return p.root }

func (p *MetadataPersister) VerifRows() []*models.Header {
	n := vm.TableLen(p.sqlite.DB)
	out := []*models.Header{}
	for i := 0; i < n; i++ {
		out = append(out, vm.TableRow(p.sqlite.DB, i))
	}
	return out
}

// Name alphabet shared by the table harnesses: SQL wildcards, a case pair, dot, space, a 2-byte character.
const VerifAlphabet = "abA_%. \xc3\xa9"

// VerifComponent returns a symbolic path component of 1..maxLen bytes without '/'.
// Multi-byte characters are kept well-formed: 0xC3 is always followed by 0xA9.
func VerifComponent(tag string, maxLen int, alphabet string) string {
	s := vm.String(tag, 1, maxLen, alphabet)
	for i := 0; i < len(s); i++ {
		if s[i] == 0xc3 {
			vm.Assume(i+1 < len(s) && s[i+1] == 0xa9)
		}
		if s[i] == 0xa9 {
			vm.Assume(i > 0 && s[i-1] == 0xc3)
		}
	}
	vm.Assume(s != "." && s != "..")
	return s
}
