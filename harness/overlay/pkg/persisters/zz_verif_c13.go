package persisters

import (
	"archive/tar"
	"context"
	"strings"

	models "github.com/pojntfx/stfs/internal/db/sqlite/models/metadata"
	vm "github.com/pojntfx/stfs/internal/verifmodel"
)

func c13IsDirectChild(parent, name string) bool {
	prefix := parent + "/"
	if parent == "/" {
		prefix = "/"
	}
	if !strings.HasPrefix(name, prefix) || len(name) == len(prefix) {
		return false
	}
	rest := name[len(prefix):]
	for i := 0; i < len(rest); i++ {
		if rest[i] == '/' {
			return false
		}
	}
	return true
}

const c13Alpha = "ab_%A"

// Harness_C13_direct_children: GetHeaderDirectChildren(P, n) returns each live child of P exactly once
// and nothing else, and at most n of them when n > 0.
func Harness_C13_direct_children() {
	p := VerifNewPersister()
	p.VerifInsert(&models.Header{Name: "/", Typeflag: tar.TypeDir, Paxrecords: "{}"})
	p.VerifSetRoot("/")
	a := VerifComponent("A", 1, c13Alpha)
	if vm.Bool("multiByteDirectoryName") {
		// SQLite counts characters where Go counts bytes: a directory name with 2 / 3 more bytes than characters
		a = []string{"\xc3\xa9\xc3\xa9", "\xe6\x97\xa5"}[vm.Choice("multiByteName", 2)]
	}
	dir := "/" + a
	p.VerifInsert(&models.Header{Name: dir, Typeflag: tar.TypeDir, Paxrecords: "{}"})
	// child directory, grandchild directory, great-grandchild file (4 levels), a sibling and a tombstone
	b := VerifComponent("B", 1, c13Alpha)
	p.VerifInsert(&models.Header{Name: dir + "/" + b, Typeflag: tar.TypeDir, Paxrecords: "{}"})
	c := VerifComponent("C", 1, c13Alpha)
	p.VerifInsert(&models.Header{Name: dir + "/" + b + "/" + c, Typeflag: tar.TypeDir, Paxrecords: "{}"})
	if vm.Bool("deep") {
		d := VerifComponent("Dp", 1, "ab")
		p.VerifInsert(&models.Header{Name: dir + "/" + b + "/" + c + "/" + d, Typeflag: tar.TypeReg, Paxrecords: "{}"})
	}
	s := VerifComponent("S", 2, c13Alpha)
	vm.Assume("/"+s != dir)
	if vm.Bool("siblingIsDir") {
		// a sibling directory with a member of its own: its name may relate to dir's by case or by an SQL wildcard
		p.VerifInsert(&models.Header{Name: "/" + s, Typeflag: tar.TypeDir, Paxrecords: "{}"})
		p.VerifInsert(&models.Header{Name: "/" + s + "/k", Typeflag: tar.TypeReg, Size: 7, Paxrecords: "{}"})
	} else {
		p.VerifInsert(&models.Header{Name: "/" + s, Typeflag: tar.TypeReg, Size: 5, Paxrecords: "{}"})
	}
	t := VerifComponent("T", 1, "ab")
	vm.Assume(t != b)
	p.VerifInsert(&models.Header{Name: dir + "/" + t, Typeflag: tar.TypeReg, Deleted: 1, Paxrecords: "{}"})
	// more siblings so that a limited listing has something to cut (up to 5 live children per directory)
	extra := vm.Int("extraChildren", 0, 3)
	for i := 0; i < extra; i++ {
		p.VerifInsert(&models.Header{Name: dir + "/x" + string(rune('0'+i)), Typeflag: tar.TypeReg, Size: int64(i), Paxrecords: "{}"})
		p.VerifInsert(&models.Header{Name: "/y" + string(rune('0'+i)), Typeflag: tar.TypeDir, Paxrecords: "{}"})
	}

	parent := "/"
	switch vm.Choice("parent", 3) {
	case 1:
		parent = dir
	case 2:
		parent = dir + "/" + b
	}
	n := vm.Int("n", -1, 4)
	got, err := p.GetHeaderDirectChildren(context.Background(), parent, n)
	vm.Assert("C13.list_no_error", err == nil)

	vm.Known("C13-depth-replaces-every-occurrence", true)

	wantCount := 0
	for _, r := range p.VerifRows() {
		want := r.Deleted != 1 && c13IsDirectChild(parent, r.Name)
		if want {
			wantCount++
		}
		times := 0
		for _, g := range got {
			if g.Name == r.Name {
				times++
			}
		}
		if n <= 0 {
			vm.Assert("C13.list_exact_unlimited", (want && times == 1) || (!want && times == 0))
		} else {
			vm.Assert("C13.list_limited_subset_no_duplicates", times <= 1 && (want || times == 0))
		}
	}
	for _, g := range got {
		found := false
		for _, r := range p.VerifRows() {
			if r.Name == g.Name && r.Deleted != 1 {
				found = true
				vm.Assert("C13.listed_entry_matches_lookup", g.Typeflag == r.Typeflag && g.Size == r.Size)
			}
		}
		vm.Assert("C13.listed_entry_is_a_live_row", found)
	}
	if n > 0 {
		vm.Assert("C13.list_at_most_n", len(got) <= n)
		vm.Assert("C13.list_limited_returns_min", len(got) == n || len(got) == wantCount)
	}
	vm.Cover("C13.some_child_listed", len(got) > 0)
	vm.Cover("C13.limit_cuts", n > 0 && wantCount > n)
}
