package persisters

import (
	"archive/tar"
	"context"
	"strings"

	models "github.com/pojntfx/stfs/internal/db/sqlite/models/metadata"
	vm "github.com/pojntfx/stfs/internal/verifmodel"
)

// Harness_C12_children_exact: GetHeaderChildren(D) returns exactly the live rows below D.
func Harness_C12_children_exact() {
	p := VerifNewPersister()
	p.VerifInsert(&models.Header{Name: "/", Typeflag: tar.TypeDir, Paxrecords: "{}"})
	p.VerifSetRoot("/")
	d := "/" + VerifComponent("D", 2, VerifAlphabet)
	p.VerifInsert(&models.Header{Name: d, Typeflag: tar.TypeDir, Paxrecords: "{}"})
	// two other rows: a sibling directory and an entry one level below some directory
	sib := "/" + VerifComponent("S", 2, VerifAlphabet)
	vm.Assume(sib != d)
	p.VerifInsert(&models.Header{Name: sib, Typeflag: tar.TypeDir, Paxrecords: "{}"})
	parent := d
	if vm.Bool("childUnderSibling") {
		parent = sib
	}
	child := parent + "/" + VerifComponent("C", 1, "ab_")
	deleted := int64(0)
	if vm.Bool("childDeleted") {
		deleted = 1
	}
	p.VerifInsert(&models.Header{Name: child, Typeflag: tar.TypeReg, Deleted: deleted, Paxrecords: "{}"})
	// a younger entry below the directory: it is a child whatever became of the older one
	p.VerifInsert(&models.Header{Name: d + "/younger", Typeflag: tar.TypeReg, Paxrecords: "{}"})
	// the directory's own name reused one level down below the sibling
	p.VerifInsert(&models.Header{Name: sib + d, Typeflag: tar.TypeDir, Paxrecords: "{}"})
	p.VerifInsert(&models.Header{Name: sib + d + "/z", Typeflag: tar.TypeReg, Paxrecords: "{}"})

	got, err := p.GetHeaderChildren(context.Background(), d)
	vm.Assert("C12.children_no_error", err == nil)
	for _, r := range p.VerifRows() {
		in := false
		for _, g := range got {
			if g.Name == r.Name {
				in = true
			}
		}
		want := r.Deleted != 1 && strings.HasPrefix(r.Name, d+"/")
		vm.Assert("C12.children_exact", in == want)
	}
	wild := false
	for i := 0; i < len(d); i++ {
		if d[i] == '_' || d[i] == '%' {
			wild = true
		}
	}
	vm.Cover("C12.wildcard_in_dir", wild)
	vm.Cover("C12.child_listed", len(got) >= 1)
}
