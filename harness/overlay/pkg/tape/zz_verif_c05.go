package tape

import (
	"archive/tar"

	vm "github.com/pojntfx/stfs/internal/verifmodel"
)

// Harness_C05_overwrite_only_when_requested_and_once: the drive manager truncates the drive only when it
// was constructed with overwrite, and only for its first writer; every other writer appends.
func Harness_C05_overwrite_only_when_requested_and_once() {
	const drive = "/ghost/overwrite.tar"
	t := vm.NewTape(drive)
	vm.GhostFS[drive] = t
	t.AddMember(&tar.Header{Typeflag: tar.TypeDir, Name: "/", Format: tar.FormatPAX}, 3, 0, nil)
	t.AddTrailer()
	before := t.Len
	overwrite := vm.Bool("overwrite")
	m := NewTapeManager(drive, nil, 20, overwrite)
	writers := vm.Int("writers", 1, 3)
	for i := 0; i < vm.Concretize(writers); i++ {
		w, err := m.GetWriter()
		vm.Assert("C05.getwriter_ok", err == nil)
		if err != nil {
			return
		}
		_ = w
		if i == 0 {
			if overwrite {
				vm.Assert("C05.explicit_overwrite_truncates_once", t.Truncates == 1 && t.Len == 0)
			} else {
				vm.Assert("C05.no_truncate_without_overwrite", t.Truncates == 0 && t.Len == before)
			}
		}
		vm.Assert("C05.closewriter_ok", m.Close() == nil)
	}
	if overwrite {
		vm.Assert("C05.later_writers_do_not_truncate", t.Truncates == 1)
	} else {
		vm.Assert("C05.never_truncated", t.Truncates == 0 && t.Len == before)
	}
	for _, ev := range vm.OpenLog {
		_ = ev
	}
	vm.Assert("C05.manager_locks_free", vm.HeldMutexes() == 0)
}
