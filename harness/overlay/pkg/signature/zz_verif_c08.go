package signature

import (
	"archive/tar"
	"encoding/json"

	"github.com/pojntfx/stfs/internal/records"
	vm "github.com/pojntfx/stfs/internal/verifmodel"
	"github.com/pojntfx/stfs/pkg/config"
)

// c08Recipient returns a recipient value of a symbolic kind: right type, wrong type, empty ring, nil.
func c08Recipient(format string) (interface{}, int) {
	k := vm.Choice("recipientKind", 4)
	switch k {
	case 0:
		if format == config.SignatureFormatPGPKey {
			return vm.NewPGPRecipient(), k
		}
		return vm.NewMinisignPublicKey(), k
	case 1: // key of the other format
		if format == config.SignatureFormatPGPKey {
			return vm.NewMinisignPublicKey(), k
		}
		return vm.NewPGPRecipient(), k
	case 2: // empty key ring / zero key
		if format == config.SignatureFormatPGPKey {
			return vm.NewPGPRecipient()[:0], k
		}
		return vm.NewMinisignPublicKey(), k
	default:
		return nil, k
	}
}

var c08Formats = []string{config.SignatureFormatMinisignKey, config.SignatureFormatPGPKey}

// Harness_C08_verify_string: VerifyString(...) == nil only if the primitive was evaluated on exactly
// (src, signature) and returned true. Signature text is attacker-controlled (symbolic).
func Harness_C08_verify_string() {
	format := c08Formats[vm.Choice("format", 2)]
	isRegular := vm.Bool("isRegular")
	recipient, _ := c08Recipient(format)
	src := "embedded-header-json"
	sig := vm.String("signature", 0, 2, "A=!")
	err := VerifyString(src, isRegular, format, recipient, sig)

	vm.Known("C08-pgp-verifystring-swallows-errors", format == config.SignatureFormatPGPKey)

	accepted := false
	for _, ev := range vm.VerifyEvents {
		if ev.Result && ev.Message == src {
			accepted = true
		}
	}
	vm.Assert("C08.nil_implies_primitive_accepted", err != nil || accepted)
	vm.Cover("C08.accepting_path_exists", err == nil && accepted)
	vm.Cover("C08.rejecting_path_exists", err != nil)
}

// Harness_C08_verify_string_history: verification has no memory. After any first verification (accepted or not),
// a second one with the same or another signature text over a *different* message is accepted only if the
// primitive was evaluated on exactly that second message and returned true.
func Harness_C08_verify_string_history() {
	format := c08Formats[vm.Choice("format", 2)]
	isRegular := vm.Bool("isRegular")
	recipient, kind := c08Recipient(format)
	vm.Assume(kind == 0)
	sig1 := vm.String("signature", 0, 2, "A=!")
	first := VerifyString("embedded-header-json", isRegular, format, recipient, sig1)
	seen := len(vm.VerifyEvents)
	sig2 := sig1
	if vm.Bool("otherSignature") {
		sig2 = vm.String("signature2", 0, 2, "A=!")
	}
	src2 := "forged-header-json"
	err := VerifyString(src2, isRegular, format, recipient, sig2)
	accepted := false
	for i, ev := range vm.VerifyEvents {
		if i >= seen && ev.Result && ev.Message == src2 {
			accepted = true
		}
	}
	vm.Assert("C08.second_nil_implies_primitive_accepted_second_message", err != nil || accepted)
	vm.Cover("C08.history_first_accepted", first == nil)
	vm.Cover("C08.history_second_rejected", err != nil)
}

// Harness_C08_verify_header: VerifyHeader == nil only if both records were present, the embedded
// header text was accepted by the primitive, and *hdr was replaced entirely by the embedded header.
func Harness_C08_verify_header() {
	format := c08Formats[vm.Choice("format", 2)]
	recipient, _ := c08Recipient(format)
	inner := &tar.Header{Typeflag: tar.TypeReg, Name: "/signed-name", Size: 7, Mode: 0o600, Uid: 11, Gid: 12, Uname: "u", Gname: "g", Linkname: "",
		PAXRecords: map[string]string{records.STFSRecordAction: records.STFSRecordActionCreate}}
	embedded, _ := json.Marshal(inner)

	outer := &tar.Header{Typeflag: tar.TypeDir, Name: "/outer-name", Size: 99, Mode: 0o777, Uid: 1, Gid: 2, Linkname: "/outer-link", Uname: "ou", Gname: "og", Format: tar.FormatPAX}
	hasRecords := vm.Bool("hasPAX")
	hasEmbedded := vm.Bool("hasEmbedded")
	hasSig := vm.Bool("hasSignature")
	if hasRecords {
		outer.PAXRecords = map[string]string{"STFS.Other": "x"}
		if hasEmbedded {
			outer.PAXRecords[records.STFSRecordEmbeddedHeader] = string(embedded)
		}
		if hasSig {
			outer.PAXRecords[records.STFSRecordSignature] = vm.String("signature", 0, 1, "A!")
		}
	}
	err := VerifyHeader(outer, true, format, recipient)

	vm.Known("C08-pgp-verifystring-swallows-errors", format == config.SignatureFormatPGPKey)

	accepted := false
	for _, ev := range vm.VerifyEvents {
		if ev.Result && ev.Message == string(embedded) {
			accepted = true
		}
	}
	vm.Assert("C08.header_nil_implies_records_present", err != nil || (hasRecords && hasEmbedded && hasSig))
	vm.Assert("C08.header_nil_implies_primitive_accepted", err != nil || accepted)
	if err == nil {
		vm.Assert("C08.header_replaced_name", outer.Name == inner.Name)
		vm.Assert("C08.header_replaced_all_fields", outer.Typeflag == inner.Typeflag && outer.Size == inner.Size && outer.Mode == inner.Mode && outer.Uid == inner.Uid && outer.Gid == inner.Gid && outer.Linkname == inner.Linkname && outer.Uname == inner.Uname && outer.Gname == inner.Gname)
		_, hasOuterRec := outer.PAXRecords["STFS.Other"]
		vm.Assert("C08.header_no_outer_records_survive", !hasOuterRec)
	}
	vm.Cover("C08.header_accepting_path_exists", err == nil)
}

// Harness_C08_verify_none: with signatures off nothing is checked and nothing is changed.
func Harness_C08_verify_none() {
	outer := &tar.Header{Name: "/n", PAXRecords: map[string]string{"a": "b"}}
	err := VerifyHeader(outer, vm.Bool("isRegular"), config.NoneKey, nil)
	vm.Assert("C08.none_is_noop", err == nil && outer.Name == "/n")
	err = VerifyHeader(outer, true, "bogus", nil)
	vm.Assert("C08.unknown_format_rejected", err != nil)
}
