package recovery

import (
	"archive/tar"
	"encoding/json"
	"io"
	"io/fs"

	"github.com/pojntfx/stfs/internal/records"
	vm "github.com/pojntfx/stfs/internal/verifmodel"
	"github.com/pojntfx/stfs/pkg/config"
)

var c08SigFormats = []string{config.SignatureFormatMinisignKey, config.SignatureFormatPGPKey}

func c08Recipient(format string) interface{} {
	if format == config.SignatureFormatPGPKey {
		return vm.NewPGPRecipient()
	}
	return vm.NewMinisignPublicKey()
}

// c08SignedMember puts one member on the tape whose outer header is a signature wrapper around inner.
// The signature text is attacker-controlled.
func c08SignedMember(t *vm.Tape, inner *tar.Header, data []byte, tamper int) string {
	embedded, _ := json.Marshal(inner)
	outer := &tar.Header{Typeflag: inner.Typeflag, Format: tar.FormatPAX, Size: int64(len(data)), Name: "/attacker-visible-outer-name", PAXRecords: map[string]string{}}
	switch tamper {
	case 0: // well-formed wrapper, signature text symbolic
		outer.PAXRecords[records.STFSRecordEmbeddedHeader] = string(embedded)
		outer.PAXRecords[records.STFSRecordSignature] = vm.String("hdrsig", 0, 1, "A!")
	case 1: // signature record removed
		outer.PAXRecords[records.STFSRecordEmbeddedHeader] = string(embedded)
	case 2: // plain unsigned record appended by a foreign tar writer
		outer.Name = "/foreign"
		outer.PAXRecords = nil
	case 3: // embedded header and its signature kept byte for byte, but the (unsigned) outer header announces a
		// shorter stream and the stream is cut accordingly
		outer.PAXRecords[records.STFSRecordEmbeddedHeader] = string(embedded)
		outer.PAXRecords[records.STFSRecordSignature] = vm.String("hdrsig", 0, 1, "A!")
		if len(data) > 0 {
			n := vm.Concretize(vm.Int("outerSize", 0, len(data)-1))
			data = data[:n]
			outer.Size = int64(n)
		}
	case 4: // embedded header and signature kept byte for byte; the (unsigned) outer header claims another kind of
		// entry through its mode bits (a fifo / a socket) while its typeflag still lets the reader hand out the body
		outer.PAXRecords[records.STFSRecordEmbeddedHeader] = string(embedded)
		outer.PAXRecords[records.STFSRecordSignature] = vm.String("hdrsig", 0, 1, "A!")
		outer.Mode = []int64{0o10644, 0o140644}[vm.Choice("outerModeBits", 2)]
	}
	t.AddMember(outer, 3, int64(len(data)), data)
	return string(embedded)
}

func c08Accepted(embedded string) bool {
	for _, ev := range vm.VerifyEvents {
		if ev.Result && ev.Message == embedded {
			return true
		}
	}
	return false
}

// Harness_C08_query_gate: every header Query returns or reports went through header verification.
func Harness_C08_query_gate() {
	format := c08SigFormats[vm.Choice("format", 2)]
	tamper := vm.Choice("tamper", 3)
	t := vm.NewTape("drive")
	inner := &tar.Header{Typeflag: tar.TypeReg, Name: "/signed", Size: 0, Mode: 0o644, Format: tar.FormatPAX}
	embedded := c08SignedMember(t, inner, nil, tamper)
	t.AddTrailer()
	reported := []string{}
	hdrs, err := Query(
		config.DriveReaderConfig{Drive: t.OpenRead(), DriveIsRegular: true}, nil,
		config.PipeConfig{RecordSize: 20, Signature: format},
		config.CryptoConfig{Recipient: c08Recipient(format)},
		0, 0,
		func(h *config.Header) { reported = append(reported, h.Name) },
	)
	ok := c08Accepted(embedded)
	vm.Assert("C08.query_result_only_verified", len(hdrs) == 0 || ok)
	vm.Assert("C08.query_reports_only_verified", len(reported) == 0 || ok)
	for _, h := range hdrs {
		vm.Assert("C08.query_result_is_signed_header", h.Name == inner.Name)
	}
	for _, n := range reported {
		vm.Assert("C08.query_report_is_signed_header", n == inner.Name)
	}
	vm.Assert("C08.query_tampered_is_error", tamper == 0 || err != nil)
	vm.Cover("C08.query_accepts_good", err == nil && len(hdrs) == 1)
	vm.Cover("C08.query_rejects", err != nil)
}

type c08Dst struct {
	data   []byte
	closed bool
}

func (d *c08Dst) Write(p []byte) (int, error) { d.data = append(d.data, p...); return len(p), nil }
func (d *c08Dst) Close() error                { d.closed = true; return nil }

// Harness_C08_fetch_gate: Fetch hands nothing to the destination before the header is verified and
// returns nil for a regular member only after the content signature was checked over all bytes.
func Harness_C08_fetch_gate() {
	format := c08SigFormats[vm.Choice("format", 2)]
	tamper := vm.Choice("tamper", 5)
	kind := vm.Choice("kind", 3)
	t := vm.NewTape("drive")
	data := []byte{vm.Byte("d0", "xy"), vm.Byte("d1", "xy"), vm.Byte("d2", "xy")}
	inner := &tar.Header{Typeflag: tar.TypeReg, Name: "/signed", Size: 3, Mode: 0o644, Format: tar.FormatPAX, PAXRecords: map[string]string{}}
	switch kind {
	case 1:
		inner.Typeflag = tar.TypeDir
		inner.Size = 0
		data = nil
	case 2:
		inner.Typeflag = tar.TypeSymlink
		inner.Linkname = "/target"
		inner.Size = 0
		data = nil
	}
	if kind == 0 && vm.Bool("hasContentSig") {
		inner.PAXRecords[records.STFSRecordSignature] = vm.String("contentsig", 0, 1, "A!")
	}
	embedded := c08SignedMember(t, inner, data, tamper)
	t.AddTrailer()
	dst := &c08Dst{}
	dstRequested, mkdirRequested := false, false
	err := Fetch(
		config.DriveReaderConfig{Drive: t.OpenRead(), DriveIsRegular: true}, nil,
		config.PipeConfig{RecordSize: 20, Signature: format},
		config.CryptoConfig{Recipient: c08Recipient(format)},
		func(path string, mode fs.FileMode) (io.WriteCloser, error) { dstRequested = true; return dst, nil },
		func(path string, mode fs.FileMode) error { mkdirRequested = true; return nil },
		0, 0, "/out", false,
		nil,
	)
	ok := c08Accepted(embedded)
	vm.Assert("C08.fetch_no_output_before_header_verified", (!dstRequested && !mkdirRequested) || ok)
	vm.Assert("C08.fetch_nil_implies_header_verified", err != nil || ok)
	if kind == 0 {
		// nil => the verification primitive accepted exactly the bytes that were delivered (all of them, up to
		// end of stream); with an untampered stream these are the written bytes
		contentOK := false
		for _, sv := range vm.StreamVerifies {
			if sv.Result && sv.SawEOF && sv.BytesSeen == len(dst.data) {
				contentOK = true
			}
		}
		if format == config.SignatureFormatPGPKey {
			contentOK = false
			for _, ev := range vm.VerifyEvents {
				if ev.Result && ev.Message == string(dst.data) {
					contentOK = true
				}
			}
		}
		vm.Assert("C08.fetch_nil_implies_content_verified_over_all_bytes", err != nil || contentOK)
		if tamper != 3 {
			vm.Assert("C08.fetch_nil_implies_exact_bytes", err != nil || string(dst.data) == string(data))
		}
	}
	vm.Cover("C08.fetch_accepts_good", err == nil && kind == 0)
	vm.Cover("C08.fetch_rejects", err != nil)
}
