package recovery

import (
	"archive/tar"
	"context"
	"database/sql"
	"strconv"

	"github.com/pojntfx/stfs/internal/records"
	vm "github.com/pojntfx/stfs/internal/verifmodel"
	"github.com/pojntfx/stfs/pkg/config"
)

// recPersister records what the indexer hands to the index and checks positions against the ghost tape.
type recPersister struct {
	tape   *vm.Tape
	rs     int64
	stored map[string]*config.Header // name -> row (pre-existing rows for metadata-only updates)
	events []string
	purged bool
}

func (p *recPersister) member(name string) *vm.Seg {
	var found *vm.Seg
	for _, s := range p.tape.Segs {
		if s.Kind == vm.SegMember && s.Hdr.Name == name {
			found = s // the last member with this name is the record being indexed
		}
	}
	return found
}

func (p *recPersister) checkPos(what string, name string, record, block int64) {
	s := p.member(name)
	vm.Assert("C04.member_known."+what, s != nil)
	if s == nil {
		return
	}
	vm.Assert("C04.block_in_range."+what, block >= 0 && block < p.rs)
	vm.Assert("C04.pos_is_member_start."+what, (p.rs*record+block)*512 == s.Start)
}

func (p *recPersister) UpsertHeader(ctx context.Context, h *config.Header, initializing bool) error {
	p.events = append(p.events, "upsert:"+h.Name)
	p.checkPos("upsert", h.Name, h.Record, h.Block)
	vm.Assert("C04.upsert_lastknown_eq_pos", h.Lastknownrecord == h.Record && h.Lastknownblock == h.Block)
	p.stored[h.Name] = h
	return nil
}

func (p *recPersister) UpdateHeaderMetadata(ctx context.Context, h *config.Header) error {
	p.events = append(p.events, "update:"+h.Name)
	p.checkPos("update_lastknown", h.Name, h.Lastknownrecord, h.Lastknownblock)
	old, had := p.stored["old:"+h.Name]
	if h.Record != h.Lastknownrecord || h.Block != h.Lastknownblock {
		// metadata-only update: the content position must be the one the row had before
		vm.Assert("C04.meta_update_keeps_content_pos", had && h.Record == old.Record && h.Block == old.Block)
	}
	p.stored[h.Name] = h
	return nil
}

func (p *recPersister) MoveHeader(ctx context.Context, oldName string, newName string, linkname string, lastknownrecord, lastknownblock int64) error {
	p.events = append(p.events, "move:"+oldName+">"+newName)
	p.checkPos("move_lastknown", newName, lastknownrecord, lastknownblock)
	return nil
}

func (p *recPersister) GetHeaders(ctx context.Context) ([]*config.Header, error) { return nil, nil }

func (p *recPersister) GetHeader(ctx context.Context, name string) (*config.Header, error) {
	if h, ok := p.stored["old:"+name]; ok {
		c := *h
		return &c, nil
	}
	return nil, sql.ErrNoRows
}

func (p *recPersister) GetHeaderByLinkname(ctx context.Context, linkname string) (*config.Header, error) {
	return nil, sql.ErrNoRows
}
func (p *recPersister) GetHeaderChildren(ctx context.Context, name string) ([]*config.Header, error) {
	return nil, nil
}
func (p *recPersister) GetRootPath(ctx context.Context) (string, error) { return "/", nil }
func (p *recPersister) GetHeaderDirectChildren(ctx context.Context, name string, limit int) ([]*config.Header, error) {
	return nil, nil
}

func (p *recPersister) DeleteHeader(ctx context.Context, name string, linkname string, lastknownrecord, lastknownblock int64) (*config.Header, error) {
	p.events = append(p.events, "delete:"+name)
	p.checkPos("delete_lastknown", name, lastknownrecord, lastknownblock)
	return &config.Header{Name: name}, nil
}

func (p *recPersister) GetLastIndexedRecordAndBlock(ctx context.Context, recordSize int) (int64, int64, error) {
	return 0, 0, nil
}
func (p *recPersister) PurgeAllHeaders(ctx context.Context) error { p.purged = true; return nil }

var c04RecordSizes = []int{1, 2, 3, 7, 20, 64, 2048}

func c04RecordSize() int {
	if o := vm.Opt("rs"); o != "" {
		n, _ := strconv.Atoi(o)
		return n
	}
	sizes := c04RecordSizes
	if vm.Tier() != "thorough" {
		sizes = []int{1, 3, 20}
	}
	return sizes[vm.Choice("rs", len(sizes))]
}

func c04Header(name string, action int) *tar.Header {
	h := &tar.Header{Typeflag: tar.TypeReg, Name: name, Mode: 0o644, Format: tar.FormatPAX, PAXRecords: map[string]string{}}
	switch action {
	case 0: // CREATE written by STFS (no action record means CREATE)
	case 1: // CREATE with explicit records
		h.PAXRecords[records.STFSRecordVersion] = records.STFSRecordVersion1
		h.PAXRecords[records.STFSRecordAction] = records.STFSRecordActionCreate
	case 2: // content UPDATE
		h.PAXRecords[records.STFSRecordVersion] = records.STFSRecordVersion1
		h.PAXRecords[records.STFSRecordAction] = records.STFSRecordActionUpdate
		h.PAXRecords[records.STFSRecordReplacesContent] = records.STFSRecordReplacesContentTrue
	case 3: // metadata UPDATE
		h.PAXRecords[records.STFSRecordVersion] = records.STFSRecordVersion1
		h.PAXRecords[records.STFSRecordAction] = records.STFSRecordActionUpdate
		h.PAXRecords[records.STFSRecordReplacesContent] = records.STFSRecordReplacesContentFalse
	case 4: // DELETE
		h.PAXRecords[records.STFSRecordVersion] = records.STFSRecordVersion1
		h.PAXRecords[records.STFSRecordAction] = records.STFSRecordActionDelete
	case 5: // MOVE
		h.PAXRecords[records.STFSRecordVersion] = records.STFSRecordVersion1
		h.PAXRecords[records.STFSRecordAction] = records.STFSRecordActionUpdate
		h.PAXRecords[records.STFSRecordReplacesName] = "/old-" + name[1:]
	}
	return h
}

func c04AddMember(t *vm.Tape, tag string, name string, action int) *vm.Seg {
	hb := int64(vm.Int(tag+".hblocks", 3, 8))
	if action >= 3 {
		return t.AddMember(c04Header(name, action), hb, 0, nil) // metadata-only records carry no data
	}
	q := vm.Int64(tag+".sizeBlocks", 0, 1<<30)
	r := vm.Int64(tag+".sizeRest", 0, 511)
	return t.AddMemberQR(c04Header(name, action), hb, q, r)
}

// Harness_C04_index_step: one incremental Index pass from an arbitrary valid position:
// [.. earlier tape ..][m0 (already indexed)][trailer] [m1][m2][trailer] with symbolic header lengths,
// data lengths and start; every record size from c04RecordSizes.
func Harness_C04_index_step() {
	vm.SetUnwind(8)
	rs := c04RecordSize()
	t := vm.NewTape("drive")
	record := vm.Int("record", 0, (1<<34)/rs)
	block := vm.Int("block", 0, rs-1)
	startBlocks := int64(record)*int64(rs) + int64(block)
	t.AddZeros(startBlocks * 512) // stands for any earlier, already indexed tape content
	a1 := vm.Choice("action1", 6)
	a2 := vm.Choice("action2", 6)
	m0 := c04AddMember(t, "m0", "/m0", 0)
	t.AddTrailer()
	c04AddMember(t, "m1", "/m1", a1)
	c04AddMember(t, "m2", "/m2", a2)
	t.AddTrailer()
	vm.Assume(t.Len < 1<<44)

	p := &recPersister{tape: t, rs: int64(rs), stored: map[string]*config.Header{}}
	// rows that metadata-only updates refer to
	p.stored["old:/m1"] = &config.Header{Name: "/m1", Record: 11, Block: 0, Lastknownrecord: 11, Lastknownblock: 0}
	p.stored["old:/m2"] = &config.Header{Name: "/m2", Record: 12, Block: 0, Lastknownrecord: 12, Lastknownblock: 0}

	vm.Assert("C04.harness_start_is_m0", (int64(rs)*int64(record)+int64(block))*512 == m0.Start)

	seen := 0
	err := Index(
		config.DriveReaderConfig{Drive: t.OpenRead(), DriveIsRegular: true},
		nil,
		config.MetadataConfig{Metadata: p},
		config.PipeConfig{RecordSize: rs},
		config.CryptoConfig{},
		record, block, false, false, 1,
		func(hdr *tar.Header, i int) error { return nil },
		func(hdr *tar.Header, isRegular bool) error { return nil },
		func(hdr *config.Header) {
			seen++
			s := p.member(hdr.Name)
			vm.Assert("C04.onheader_pos", s != nil && (int64(rs)*hdr.Record+hdr.Block)*512 == s.Start && hdr.Block >= 0 && hdr.Block < int64(rs))
		},
	)
	vm.Assert("C04.index_no_error", err == nil)
	vm.Assert("C04.index_saw_both_new_members", seen == 2)
	vm.Cover("C04.member_crosses_record", rs > 1 && m0.Start/512/int64(rs) != (m0.End()-1)/512/int64(rs))
	vm.Sample("rs", rs)
	vm.Sample("events", len(p.events))
}

// Harness_C04_fetch_seek: Fetch(record, block) positions the reader exactly on the member start.
func Harness_C04_fetch_seek() {
	rs := c04RecordSize()
	t := vm.NewTape("drive")
	record := vm.Int("record", 0, (1<<34)/rs)
	block := vm.Int("block", 0, rs-1)
	startBlocks := int64(record)*int64(rs) + int64(block)
	t.AddZeros(startBlocks * 512)
	m := c04AddMember(t, "m", "/m", 0)
	t.AddTrailer()
	vm.Assume(t.Len < 1<<44)
	got := ""
	err := Fetch(
		config.DriveReaderConfig{Drive: t.OpenRead(), DriveIsRegular: true},
		nil,
		config.PipeConfig{RecordSize: rs},
		config.CryptoConfig{},
		nil, nil,
		record, block, "", true,
		func(hdr *config.Header) { got = hdr.Name },
	)
	vm.Assert("C04.fetch_no_error", err == nil)
	vm.Assert("C04.fetch_right_member", got == m.Hdr.Name)
}

// Harness_C04_query_positions: recovery.Query reports every member at its true start, from an arbitrary
// valid start position, across a trailer and into the next archive.
func Harness_C04_query_positions() {
	vm.SetUnwind(8)
	rs := c04RecordSize()
	t := vm.NewTape("drive")
	record := vm.Int("record", 0, (1<<34)/rs)
	block := vm.Int("block", 0, rs-1)
	startBlocks := int64(record)*int64(rs) + int64(block)
	t.AddZeros(startBlocks * 512)
	c04AddMember(t, "m0", "/m0", 0)
	t.AddTrailer()
	c04AddMember(t, "m1", "/m1", vm.Choice("action1", 6))
	t.AddTrailer()
	vm.Assume(t.Len < 1<<44)
	seen := 0
	hdrs, err := Query(
		config.DriveReaderConfig{Drive: t.OpenRead(), DriveIsRegular: true}, nil,
		config.PipeConfig{RecordSize: rs}, config.CryptoConfig{},
		record, block,
		func(h *config.Header) {
			seen++
			var s *vm.Seg
			for _, g := range t.Segs {
				if g.Kind == vm.SegMember && g.Hdr.Name == h.Name {
					s = g
				}
			}
			vm.Assert("C04.query_pos_is_member_start", s != nil && (int64(rs)*h.Record+h.Block)*512 == s.Start && h.Block >= 0 && h.Block < int64(rs))
		},
	)
	vm.Assert("C04.query_no_error", err == nil)
	vm.Assert("C04.query_sees_both_members", seen == 2 && len(hdrs) == 2)
}

// Harness_C04_fetch_seek_any_record_size: like fetch_seek but with the record size itself symbolic
// (1..65536); decided by cvc5's integer encoding of bit-vectors (thorough tier only).
func Harness_C04_fetch_seek_any_record_size() {
	rs := vm.Int("rs", 1, 1<<16)
	t := vm.NewTape("drive")
	record := vm.Int("record", 0, 1<<16)
	block := vm.Int("block", 0, 1<<16)
	vm.Assume(block < rs)
	startBlocks := int64(record)*int64(rs) + int64(block)
	t.AddZeros(startBlocks * 512)
	m := c04AddMember(t, "m", "/m", 0)
	t.AddTrailer()
	got := ""
	err := Fetch(
		config.DriveReaderConfig{Drive: t.OpenRead(), DriveIsRegular: true},
		nil,
		config.PipeConfig{RecordSize: rs},
		config.CryptoConfig{},
		nil, nil,
		record, block, "", true,
		func(hdr *config.Header) { got = hdr.Name },
	)
	vm.Assert("C04.fetch_any_rs_no_error", err == nil)
	vm.Assert("C04.fetch_any_rs_right_member", got == m.Hdr.Name)
}

// (An index_step harness with a symbolic record size was tried and dropped: record*rs with both factors symbolic
// inside the Index loop did not finish under z3, z3-new or cvc5's integer encoding within 600 s even for
// rs <= 64, record <= 255; the concrete record-size set of Harness_C04_index_step is what is claimed.)
