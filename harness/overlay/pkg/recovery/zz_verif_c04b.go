package recovery

import (
	"archive/tar"
	"context"

	models "github.com/pojntfx/stfs/internal/db/sqlite/models/metadata"
	vm "github.com/pojntfx/stfs/internal/verifmodel"
	"github.com/pojntfx/stfs/pkg/persisters"
)

// Harness_C04_index_header_positions: indexHeader applied to the real MetadataPersister (over the SQL
// model): which position each action stores. The row's earlier position and the position of the record
// being indexed are symbolic.
func Harness_C04_index_header_positions() {
	p := persisters.VerifNewPersister()
	p.VerifInsert(&models.Header{Name: "/", Typeflag: tar.TypeDir, Paxrecords: "{}"})
	p.VerifSetRoot("/")
	rs := int64(20)
	r0 := vm.Int64("oldRecord", 0, 1<<20)
	b0 := vm.Int64("oldBlock", 0, rs-1)
	lr0 := vm.Int64("oldLastRecord", 0, 1<<20)
	lb0 := vm.Int64("oldLastBlock", 0, rs-1)
	// (positions are compared record first, then block: the same order as record*rs+block because 0 <= block < rs,
	// without 64-bit multiplications in the queries, which took z3 up to 18 s each)
	vm.Assume(vm.Or(lr0 > r0, vm.And(lr0 == r0, lb0 >= b0))) // last-known is never before the content position
	p.VerifInsert(&models.Header{Name: "/m1", Typeflag: tar.TypeReg, Size: 3, Record: r0, Block: b0, Lastknownrecord: lr0, Lastknownblock: lb0, Paxrecords: "{}"})
	// an unrelated row with its own positions
	p.VerifInsert(&models.Header{Name: "/other", Typeflag: tar.TypeReg, Record: 1, Block: 2, Lastknownrecord: 1, Lastknownblock: 2, Paxrecords: "{}"})

	rec := vm.Int64("record", 0, 1<<20)
	blk := vm.Int64("block", 0, rs-1)
	vm.Assume(vm.Or(rec > lr0, vm.And(rec == lr0, blk > lb0))) // the record being indexed lies after everything indexed so far
	vm.Assume(vm.Or(rec > 1, vm.And(rec == 1, blk > 2)))
	action := vm.Choice("action", 6)
	hdr := c04Header("/m1", action)
	newName := "/m1"
	if action == 5 {
		// move: the record carries the new name and names the old one
		hdr = c04Header("/m9", 5)
		hdr.PAXRecords["STFS.ReplacesName"] = "/m1"
		newName = "/m9"
	}
	err := indexHeader(rec, blk, hdr, p, "", "", false, nil)
	vm.Assert("C04.index_header_no_error", err == nil)
	var row, other *models.Header
	for _, r := range p.VerifRows() {
		if r.Name == newName {
			row = r
		}
		if r.Name == "/other" {
			other = r
		}
	}
	vm.Assert("C04.row_exists_after_action", row != nil)
	if row == nil {
		return
	}
	switch action {
	case 0, 1, 2: // create / content update: the entry's content now lives in this record
		vm.Assert("C04.content_actions_store_new_position", row.Record == rec && row.Block == blk && row.Lastknownrecord == rec && row.Lastknownblock == blk)
	case 3, 4, 5: // metadata update / delete / move: content position kept, last-known advanced
		vm.Assert("C04.metadata_actions_keep_content_position", row.Record == r0 && row.Block == b0)
		vm.Assert("C04.metadata_actions_advance_lastknown", row.Lastknownrecord == rec && row.Lastknownblock == blk)
	}
	vm.Assert("C04.lastknown_not_before_content", vm.Or(row.Lastknownrecord > row.Record, vm.And(row.Lastknownrecord == row.Record, row.Lastknownblock >= row.Block)))
	vm.Assert("C04.block_in_range_after_action", row.Block >= 0 && row.Block < rs && row.Lastknownblock >= 0 && row.Lastknownblock < rs)
	vm.Assert("C04.other_row_untouched", other != nil && other.Record == 1 && other.Block == 2 && other.Lastknownrecord == 1 && other.Lastknownblock == 2)
	lr, lb, lerr := p.GetLastIndexedRecordAndBlock(context.Background(), int(rs))
	vm.Assert("C04.last_indexed_is_this_record", lerr == nil && lr == rec && lb == blk)
	if action == 4 {
		vm.Assert("C04.delete_tombstones", row.Deleted == 1)
	}
}
