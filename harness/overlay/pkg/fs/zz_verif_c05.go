package fs

import (
	"archive/tar"
	"io"
	"os"

	vm "github.com/pojntfx/stfs/internal/verifmodel"
	"github.com/pojntfx/stfs/pkg/config"
)

type c05Snap struct {
	segs []*vm.Seg
	ends []int64
	len  int64
}

func c05Take(t *vm.Tape) c05Snap {
	s := c05Snap{len: t.Len}
	for _, g := range t.Segs {
		s.segs = append(s.segs, g)
		s.ends = append(s.ends, g.End())
	}
	return s
}

// c05PrefixIntact: everything that was on the tape before is still there, unchanged, in the same place.
func c05PrefixIntact(t *vm.Tape, s c05Snap) bool {
	if len(t.Segs) < len(s.segs) || t.Len < s.len || t.Truncates != 0 {
		return false
	}
	for i, g := range s.segs {
		if t.Segs[i] != g || g.End() != s.ends[i] {
			return false
		}
	}
	return true
}

// Harness_C05_append_only_and_wellformed: any call (with at most one injected fault) leaves the earlier
// tape untouched; a fault-free call that wrote something leaves a 512-aligned tape whose new part is a
// sequence of complete PAX members followed by a trailer, with STFS action records where required.
func Harness_C05_append_only_and_wellformed() {
	// with and without a compressor in the pipeline (an empty content then still has a non-empty stream)
	pipes := config.PipeConfig{}
	if vm.Bool("gzip") {
		pipes.Compression = config.CompressionFormatGZipKey
	}
	v := c10PrestateWith(pipes)
	if pipes.Compression == "" && vm.Bool("ustarMemberInDirectory") {
		// an entry that a standard tar writer put into /d in ustar format (tapes written by other tools mix formats)
		v.Env.AddForeignEntry("/d/u", tar.TypeReg, 0)
	}
	op := vm.Choice("op", c10Ops)
	name := c10Names[vm.Choice("name", len(c10Names))]
	other := c10Names[vm.Choice("other", 2)+3]
	faulty := vm.Bool("faulty")
	if faulty {
		vm.FaultBudget = 1
	}
	t := v.Env.Tape
	snap := c05Take(t)
	err := c10Call(v, op, name, other)
	vm.Assert("C05.earlier_tape_content_untouched", c05PrefixIntact(t, snap))
	vm.Assert("C05.every_write_open_is_append", t.NonAppendOpens == 0)
	for _, ev := range vm.OpenLog {
		if ev.Flag&(os.O_WRONLY|os.O_RDWR) != 0 {
			vm.Assert("C05.write_open_has_o_append_and_no_trunc", ev.Flag&os.O_APPEND != 0 && ev.Flag&os.O_TRUNC == 0)
		}
	}
	if vm.FaultsUsed == 0 {
		// at rest: whole blocks, complete members, closed by a trailer
		vm.Assert("C05.tape_is_whole_blocks", t.Len%512 == 0)
		newSegs := t.Segs[len(snap.segs):]
		for _, g := range newSegs {
			if g.Kind == vm.SegMember {
				vm.Assert("C05.member_complete", !g.Open && g.Written == g.Size && g.Size >= 0)
				vm.Assert("C05.member_is_pax", g.Hdr.Format == tar.FormatPAX)
			}
		}
		if len(newSegs) > 0 {
			vm.Assert("C05.appended_archive_ends_with_trailer", newSegs[len(newSegs)-1].Kind == vm.SegTrailer)
			vm.Assert("C05.appended_archive_starts_with_member", newSegs[0].Kind == vm.SegMember)
		}
		if err != nil && op != 3 && op != 14 && op != 2 && op < 15 {
			// a rejected call (precondition failure) appends nothing; calls that create first and then
			// write (2, 3, 14) are excluded because their first half may legitimately have succeeded
			vm.Assert("C05.rejected_call_appends_nothing", len(newSegs) == 0)
		}
		if op == 3 && err == nil && pipes.Compression == "" {
			// content written through the handle is the member's data
			// (two bytes written at offset 0 without O_TRUNC: "/d/g" held three zero bytes before and keeps the third)
			want := "ab"
			if name == "/d/g" {
				want = "ab\x00"
			}
			last := t.LastMember()
			vm.Assert("C05.member_data_equals_written_content", last != nil && string(last.Data) == want && last.Hdr.PAXRecords["STFS.Action"] == "UPDATE")
		}
	}
	vm.Cover("C05.something_appended", len(t.Segs) > len(snap.segs))
	vm.Cover("C05.fault_path", vm.FaultsUsed > 0)
}

// Harness_C05_batched_archive_is_wellformed: one Operations.Archive call with several entries (a directory and
// regular files of symbolic sizes 0..3, as `stfs operation archive` passes them when it walks a directory), with and
// without a compressor: earlier content untouched, whole blocks, every member complete with exactly its content,
// one trailer at the end.
func Harness_C05_batched_archive_is_wellformed() {
	pipes := config.PipeConfig{}
	if vm.Bool("gzip") {
		pipes.Compression = config.CompressionFormatGZipKey
	}
	v := c10PrestateWith(pipes)
	t := v.Env.Tape
	snap := c05Take(t)
	sizes := []int{vm.Concretize(vm.Int("size0", 0, 3)), vm.Concretize(vm.Int("size1", 0, 3)), vm.Concretize(vm.Int("size2", 0, 3))}
	names := []string{"/d/p", "/d/q", "/d/r"}
	members := []config.FileConfig{{
		GetFile: func() (io.ReadSeekCloser, error) { return &c01Src{}, nil },
		Info:    c01Info{name: "sub", mode: os.ModeDir | 0o750},
		Path:    "/d/sub",
	}}
	// the source callback may hand out a fresh handle every time, or the one already-open handle it was built around
	// (a *os.File or bytes.Reader captured by the closure): the operation rewinds it between its two passes
	sharedHandle := vm.Bool("sharedSourceHandle")
	for i, n := range names {
		data := []byte("xyz")[:sizes[i]]
		shared := &c01Src{data: data}
		members = append(members, config.FileConfig{
			GetFile: func() (io.ReadSeekCloser, error) {
				if sharedHandle {
					return shared, nil
				}
				return &c01Src{data: data}, nil
			},
			Info: c01Info{name: n, size: int64(len(data)), mode: 0o640},
			Path: n,
		})
	}
	i := 0
	_, err := v.Env.WriteOps.Archive(func() (config.FileConfig, error) {
		if i >= len(members) {
			return config.FileConfig{}, io.EOF
		}
		i++
		return members[i-1], nil
	}, config.CompressionLevelFastestKey, false, false)
	vm.Assert("C05.batched_archive_ok", err == nil)
	vm.Assert("C05.batched_archive_keeps_earlier_content", c05PrefixIntact(t, snap))
	vm.Assert("C05.batched_archive_whole_blocks", t.Len%512 == 0)
	newSegs := t.Segs[len(snap.segs):]
	nMembers := 0
	for _, g := range newSegs {
		if g.Kind == vm.SegMember {
			nMembers++
			vm.Assert("C05.batched_member_complete", !g.Open && g.Written == g.Size && g.Size >= 0)
		}
	}
	vm.Assert("C05.batched_archive_one_member_per_entry", nMembers == 4)
	if len(newSegs) > 0 {
		vm.Assert("C05.batched_archive_ends_with_trailer", newSegs[len(newSegs)-1].Kind == vm.SegTrailer)
	}
	if pipes.Compression == "" {
		k := 0
		for _, g := range newSegs {
			if g.Kind == vm.SegMember && g.Hdr.Typeflag == tar.TypeReg {
				vm.Assert("C05.batched_member_data_is_the_file", k < 3 && string(g.Data) == "xyz"[:sizes[k]])
				k++
			}
		}
	}
	vm.Assert("C05.batched_archive_locks_free", v.Env.LocksFree())
}
