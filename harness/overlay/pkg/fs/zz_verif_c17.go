package fs

import (
	"archive/tar"
	"context"
	"os"
	"strings"

	vm "github.com/pojntfx/stfs/internal/verifmodel"
	"github.com/pojntfx/stfs/pkg/cache"
	"github.com/pojntfx/stfs/pkg/config"
	"github.com/pojntfx/stfs/pkg/inventory"
	"github.com/pojntfx/stfs/pkg/persisters"
)

func c17Norm(s string) string {
	s = strings.TrimPrefix(strings.TrimPrefix(s, "./"), "/")
	return strings.TrimSuffix(s, "/")
}

func c17Has(list []*tar.Header, name string) int {
	n := 0
	for _, h := range list {
		if c17Norm(h.Name) == c17Norm(name) {
			n++
		}
	}
	return n
}

// Harness_C17_foreign_archive: a tar archive written by a standard tar writer (no STFS records), in three
// root styles, with directories stored with or without a trailing slash, is opened by Initialize; every
// member is listed under its directory exactly once, path spellings are interchangeable, and an entry added
// through the filesystem afterwards coexists with the members and survives a rebuild.
func Harness_C17_foreign_archive() {
	// small record sizes put members at every block offset of a record, also the last one
	rs := []int{20, 2, 3}[vm.Choice("recordSize", 3)]
	// (also through the documented read-only composition, with and without a write backend: everything up to the
	// first write is the same there)
	readOnly := vm.Bool("readOnly")
	v := verifNewFS(config.PipeConfig{RecordSize: rs}, readOnly, !readOnly || vm.Bool("withWriteBackend"))
	t := v.Env.Tape
	style := vm.Choice("style", 3)
	slash := ""
	if vm.Bool("dirsWithTrailingSlash") {
		slash = "/"
	}
	// (sibling directories whose names differ by case only, or where one has '_' or '%' where the other has a letter)
	d := persisters.VerifComponent("D", 1, "abA_")
	f := persisters.VerifComponent("F", 1, "ab")
	g := persisters.VerifComponent("G", 1, "ab")
	e := persisters.VerifComponent("E", 1, "abA_%")
	vm.Assume(g != d && e != d && e != g)
	var top, prefix string
	switch style {
	case 0: // tar cf x.tar .
		top, prefix = "./", "./"
	case 1: // tar cPf x.tar /
		top, prefix = "/", "/"
	case 2: // tar cf x.tar t   (or a dot-named directory: tar cf x.tar .t)
		tn := []string{"t", ".t"}[vm.Choice("topName", 2)]
		top, prefix = tn+slash, tn+"/"
	}
	add := func(name string, dir bool, size int64) {
		tf := byte(tar.TypeReg)
		if dir {
			tf = tar.TypeDir
		}
		var data []byte
		if size > 0 {
			data = make([]byte, size)
			for i := range data {
				data[i] = byte('a' + len(t.Segs)) // every member has its own content
			}
		}
		t.AddMember(&tar.Header{Typeflag: tf, Name: name, Size: size, Mode: 0o644, Format: tar.FormatUSTAR}, 1, size, data)
	}
	add(top, true, 0)
	add(prefix+d+slash, true, 0)
	add(prefix+d+"/"+f, false, 3)
	add(prefix+g, false, 2)
	add(prefix+e+slash, true, 0)
	add(prefix+e+"/k", false, 1)
	t.AddTrailer()

	root, err := v.FS.Initialize("/", os.ModePerm)
	vm.Assert("C17.initialize_ok", err == nil)
	if err != nil {
		return
	}
	vm.Assert("C17.nothing_appended_to_foreign_archive", t.Appends == 0)
	if style == 2 {
		vm.Assert("C17.root_is_top_level_entry", root+"/" == prefix || root == prefix)
	} else {
		vm.Assert("C17.root_is_a_root_spelling", root == "" || root == "." || root == "./" || root == "/")
	}
	md := v.Env.Metadata

	// every member is listed under its directory exactly once
	topList, lerr := inventory.List(md, root, -1, nil)
	vm.Assert("C17.list_root_ok", lerr == nil)
	vm.Assert("C17.root_lists_its_members_once", len(topList) == 3 && c17Has(topList, prefix+d) == 1 && c17Has(topList, prefix+g) == 1 && c17Has(topList, prefix+e) == 1)
	subList, serr := inventory.List(md, prefix+d, -1, nil)
	vm.Assert("C17.list_subdir_ok", serr == nil)
	vm.Assert("C17.subdir_lists_its_member_once", len(subList) == 1 && c17Has(subList, prefix+d+"/"+f) == 1)
	sibList, sierr := inventory.List(md, prefix+e, -1, nil)
	vm.Assert("C17.list_sibling_dir_ok", sierr == nil)
	vm.Assert("C17.sibling_dir_lists_its_member_once", len(sibList) == 1 && c17Has(sibList, prefix+e+"/k") == 1)

	// spellings resolve to the same entry
	spellings := []string{prefix + d + "/" + f}
	if style != 2 {
		spellings = append(spellings, "/"+d+"/"+f, d+"/"+f, "./"+d+"/"+f)
	}
	for i, sp := range spellings {
		fi, e := v.FS.Stat(sp)
		vm.Assert("C17.spelling_resolves."+string(rune('0'+i)), e == nil && fi != nil && fi.Size() == 3 && !fi.IsDir())
	}
	dirSpellings := []string{prefix + d, prefix + d + "/"}
	if style != 2 {
		dirSpellings = append(dirSpellings, "/"+d, d, "./"+d)
	}
	for i, sp := range dirSpellings {
		fi, e := v.FS.Stat(sp)
		vm.Assert("C17.dir_spelling_resolves."+string(rune('0'+i)), e == nil && fi != nil && fi.IsDir())
	}

	// every regular member reads back byte-identical (so its indexed position is the right one)
	for i, rb := range []struct {
		name string
		want string
	}{{prefix + d + "/" + f, "ccc"}, {prefix + g, "dd"}} {
		rh, oe := v.FS.Open(rb.name)
		vm.Assert("C17.member_opens."+string(rune('0'+i)), oe == nil)
		if oe == nil {
			buf := make([]byte, 4)
			n, _ := rh.Read(buf)
			vm.Assert("C17.member_reads_back."+string(rune('0'+i)), n == len(rb.want) && string(buf[:n]) == rb.want)
			rh.Close()
		}
	}

	if readOnly {
		vm.Assert("C17.read_only_open_writes_nothing", t.Appends == 0 && t.WriteOpens == 0)
		vm.Assert("C17.locks_free", v.Env.LocksFree())
		return
	}
	// coexistence: add a file through the filesystem next to the foreign members
	newName := prefix + d + "/n"
	if style != 2 {
		newName = "/" + d + "/n"
	}
	h, cerr := v.FS.Create(newName)
	vm.Assert("C17.create_next_to_foreign_members", cerr == nil)
	if cerr != nil {
		return
	}
	vm.Assert("C17.close_new_file", h.Close() == nil)
	if vm.Bool("removeAndAddAgain") {
		// further calls: the entry is removed and added once more under the same path
		vm.Assert("C17.remove_added_entry", v.FS.Remove(newName) == nil)
		h2, cerr2 := v.FS.Create(newName)
		vm.Assert("C17.add_again_after_remove", cerr2 == nil)
		if cerr2 != nil {
			return
		}
		vm.Assert("C17.close_added_again", h2.Close() == nil)
	}
	sub2, _ := inventory.List(md, prefix+d, -1, nil)
	vm.Assert("C17.new_entry_listed_with_old_member", len(sub2) == 2)
	rb, rerr := c01Rebuild(v)
	vm.Assert("C17.rebuild_after_adding_ok", rerr == nil)
	if rerr == nil {
		rm := config.MetadataConfig{Metadata: rb}
		sub3, e3 := inventory.List(rm, prefix+d, -1, nil)
		vm.Assert("C17.rebuild_shows_old_and_new", e3 == nil && len(sub3) == 2)
		rroot, _ := rb.GetRootPath(context.Background())
		vm.Assert("C17.rebuild_same_root", rroot == root)
	}
	// arbitrary further calls on the original members: they can be renamed and removed like any other entry
	switch vm.Choice("thenOnMember", 5) {
	case 1:
		vm.Assert("C17.foreign_member_can_be_renamed", v.FS.Rename(prefix+g, prefix+"z") == nil)
		_, se := v.FS.Stat(prefix + "z")
		vm.Assert("C17.renamed_foreign_member_is_there", se == nil)
	case 2:
		vm.Assert("C17.foreign_member_can_be_removed", v.FS.Remove(prefix+g) == nil)
		_, se := v.FS.Stat(prefix + g)
		vm.Assert("C17.removed_foreign_member_is_gone", se != nil)
	case 3:
		vm.Assert("C17.foreign_directory_can_be_removed_recursively", v.FS.RemoveAll(prefix+e) == nil)
		_, se := v.FS.Stat(prefix + e + "/k")
		vm.Assert("C17.removed_foreign_subtree_is_gone", se != nil)
	case 4:
		// an attribute change of the top-level directory itself, then the root is inferred afresh (as after reopening
		// the index in a new process): it is still the same directory and still lists its members
		top := "/"
		if style == 2 {
			top = root
		}
		vm.Assert("C17.top_directory_chmod_ok", v.FS.Chmod(top, 0o750) == nil)
		v.Env.P.VerifSetRoot("")
		again, rerr := v.Env.P.GetRootPath(context.Background())
		vm.Assert("C17.root_inferred_again_is_the_same", rerr == nil && again == root)
		if rerr == nil && again == root {
			l4, e4 := inventory.List(md, again, -1, nil)
			vm.Assert("C17.root_still_lists_its_members", e4 == nil && c17Has(l4, prefix+d) == 1 && c17Has(l4, prefix+e) == 1)
		}
	}
	vm.Assert("C17.locks_free", v.Env.LocksFree())
}

// Harness_C17_documented_composition: the filesystem returned by cache.NewCacheFilesystem(stfs, root, none)
// (a BasePathFs view when the root is a named top directory) resolves user-level paths to the members.
func Harness_C17_documented_composition() {
	v := verifNewFS(config.PipeConfig{}, false, true)
	t := v.Env.Tape
	style := vm.Choice("style", 2)
	d := persisters.VerifComponent("D", 1, "ab")
	f := persisters.VerifComponent("F", 1, "ab")
	top, prefix := "./", "./"
	if style == 1 {
		top, prefix = "t", "t/"
	}
	add := func(name string, dir bool, size int64) {
		tf := byte(tar.TypeReg)
		if dir {
			tf = tar.TypeDir
		}
		var data []byte
		if size > 0 {
			data = make([]byte, size)
		}
		t.AddMember(&tar.Header{Typeflag: tf, Name: name, Size: size, Mode: 0o644, Format: tar.FormatUSTAR}, 1, size, data)
	}
	add(top, true, 0)
	add(prefix+d, true, 0)
	add(prefix+d+"/"+f, false, 3)
	t.AddTrailer()
	root, err := v.FS.Initialize("/", os.ModePerm)
	vm.Assert("C17.composition_initialize_ok", err == nil)
	if err != nil {
		return
	}
	cfs, cerr := cache.NewCacheFilesystem(v.FS, root, config.NoneKey, 0, "")
	vm.Assert("C17.composition_ok", cerr == nil)
	if cerr != nil {
		return
	}
	for i, sp := range []string{"/" + d + "/" + f, d + "/" + f} {
		fi, e := cfs.Stat(sp)
		vm.Assert("C17.composition_member_resolves."+string(rune('0'+i)), e == nil && fi != nil && fi.Size() == 3 && !fi.IsDir())
	}
	fi, e := cfs.Stat("/" + d)
	vm.Assert("C17.composition_dir_resolves", e == nil && fi != nil && fi.IsDir())
	h, oerr := cfs.Open("/" + d)
	vm.Assert("C17.composition_open_dir", oerr == nil)
	if oerr == nil {
		names, rerr := h.Readdirnames(-1)
		vm.Assert("C17.composition_lists_member_once", rerr == nil && len(names) == 1 && names[0] == f)
		h.Close()
	}
}
