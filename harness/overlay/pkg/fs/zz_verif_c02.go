package fs

import (
	"archive/tar"
	"os"
	"strings"
	"time"

	vm "github.com/pojntfx/stfs/internal/verifmodel"
	"github.com/pojntfx/stfs/pkg/config"
	"github.com/pojntfx/stfs/pkg/persisters"
)

// ---- reference model: an ordinary hierarchical filesystem over a small fixed-capacity table ----

type refEntry struct {
	name string
	dir  bool
	size int64
	mode int64
	live bool
}

type refFS struct {
	e []*refEntry
}

func (r *refFS) find(name string) *refEntry {
	for _, x := range r.e {
		if x.live && x.name == name {
			return x
		}
	}
	return nil
}

func refParent(name string) string {
	i := strings.LastIndex(name, "/")
	if i <= 0 {
		return "/"
	}
	return name[:i]
}

func (r *refFS) hasChildren(name string) bool {
	for _, x := range r.e {
		if x.live && strings.HasPrefix(x.name, name+"/") {
			return true
		}
	}
	return false
}

func (r *refFS) add(name string, dir bool, mode int64) {
	r.e = append(r.e, &refEntry{name: name, dir: dir, mode: mode, live: true})
}

// each operation returns true on success
func (r *refFS) parentOK(name string) bool {
	p := r.find(refParent(name))
	return p != nil && p.dir
}

func (r *refFS) mkdir(name string) bool {
	if !r.parentOK(name) || r.find(name) != nil {
		return false
	}
	r.add(name, true, 0o755)
	return true
}

func (r *refFS) mkdirAll(name string) bool {
	parts := strings.Split(strings.TrimPrefix(name, "/"), "/")
	cur := ""
	for _, p := range parts {
		cur = cur + "/" + p
		if x := r.find(cur); x != nil {
			if !x.dir {
				return false
			}
			continue
		}
		r.add(cur, true, 0o755)
	}
	return true
}

func (r *refFS) create(name string, excl bool, trunc bool) bool {
	return r.createMode(name, excl, trunc, 0o644)
}

func (r *refFS) createMode(name string, excl bool, trunc bool, mode int64) bool {
	if x := r.find(name); x != nil {
		if x.dir || excl {
			return false
		}
		if trunc {
			x.size = 0
		}
		return true
	}
	if !r.parentOK(name) {
		return false
	}
	r.add(name, false, mode)
	return true
}

// open: OpenFile with an access mode and any combination of O_CREATE, O_EXCL (with O_CREATE), O_TRUNC, O_APPEND
func (r *refFS) open(name string, write, create, excl, trunc bool) bool {
	if x := r.find(name); x != nil {
		if create && excl {
			return false
		}
		if x.dir {
			return !write // a directory can only be opened for reading
		}
		if trunc && write {
			x.size = 0
		}
		return true
	}
	if !create || !r.parentOK(name) {
		return false
	}
	r.add(name, false, 0o644)
	return true
}

func (r *refFS) remove(name string) bool {
	x := r.find(name)
	if x == nil || name == "/" {
		return false
	}
	if x.dir && r.hasChildren(name) {
		return false
	}
	x.live = false
	return true
}

func (r *refFS) removeAll(name string) bool {
	for _, x := range r.e {
		if x.live && (x.name == name || strings.HasPrefix(x.name, name+"/")) {
			x.live = false
		}
	}
	return true
}

func (r *refFS) rename(a, b string) bool {
	src := r.find(a)
	if src == nil || a == "/" {
		return false
	}
	if a == b {
		return true
	}
	if strings.HasPrefix(b, a+"/") || !r.parentOK(b) {
		return false
	}
	if dst := r.find(b); dst != nil {
		if dst.dir != src.dir {
			return false
		}
		if dst.dir && r.hasChildren(b) {
			return false
		}
		dst.live = false
	}
	for _, x := range r.e {
		if x.live && (x.name == a || strings.HasPrefix(x.name, a+"/")) {
			x.name = b + x.name[len(a):]
		}
	}
	return true
}

func (r *refFS) chmod(name string, mode int64) bool {
	x := r.find(name)
	if x == nil {
		return false
	}
	x.mode = mode
	return true
}

// ---- the differential step ----

var c02Parents = []string{"", "/d", "/e", "/f", "/missing", "/\xc3\xa9\xc3\xa9"}

// c02Plain: the two-call histories of the thorough tier keep the index as the running instance stores it and hand
// over canonical spellings only (both dimensions are covered by the one-call runs; together with a first call they
// did not finish within the thorough budget).
var c02Plain bool

func c02Prestate() (*verifFS, *refFS) {
	v := verifNewFS(config.PipeConfig{}, false, true)
	if !c02Plain && vm.Bool("rebuiltIndex") {
		// the instance was opened over an index rebuilt from the tape: names are stored relative to the root ""
		v.Env.RelNames = true
		v.Env.AddEntry("/", tar.TypeDir, 0, false, "")
		v.Env.P.VerifSetRoot("")
	} else {
		v.rootOnly()
	}
	ref := &refFS{}
	ref.add("/", true, 0o644)
	add := func(name string, dir bool, size int64) {
		tf := byte(tar.TypeReg)
		if dir {
			tf = tar.TypeDir
		}
		v.Env.AddEntry(name, tf, size, false, "")
		ref.add(name, dir, 0o644)
		ref.find(name).size = size
	}
	add("/d", true, 0)
	add("/d/g", false, 3)
	add("/e", true, 0)
	add("/f", false, 0)
	// a component name reused at a deeper level: "/e/d" is not below "/d"
	add("/e/d", true, 0)
	add("/e/d/e", false, 0) // (its name consists of characters of its parent's path)
	add("/m", true, 0)      // an empty directory
	// a directory whose name has more bytes than characters, with a short-named subdirectory that is not empty
	add("/\xc3\xa9\xc3\xa9", true, 0)
	add("/\xc3\xa9\xc3\xa9/y", true, 0)
	add("/\xc3\xa9\xc3\xa9/y/j", false, 0)
	if vm.Bool("tombstone") {
		// a name that was used and deleted earlier
		v.Env.AddEntry("/t", tar.TypeReg, 0, true, "")
	}
	return v, ref
}

// c02Agree compares the live index rows with the reference (names, kinds, sizes; mode where set).
func c02Agree(v *verifFS, ref *refFS, checkMode bool) bool {
	ok := true
	rows := v.Env.P.VerifRows()
	nLive := 0
	for _, r := range rows {
		if r.Deleted == 1 {
			continue
		}
		nLive++
		x := ref.find("/" + strings.TrimPrefix(r.Name, "/"))
		if x == nil {
			ok = false
			continue
		}
		if x.dir != (r.Typeflag == int64(tar.TypeDir)) || (!x.dir && x.size != r.Size) {
			ok = false
		}
		if checkMode && x.mode != r.Mode {
			ok = false
		}
	}
	nRef := 0
	for _, x := range ref.e {
		if x.live {
			nRef++
		}
	}
	return ok && nLive == nRef
}

const c02Ops = 12

// c02Step performs one call on both the filesystem and the reference and compares them. light restricts the
// call to a small concrete vocabulary (used for the first call of a two-call history). It returns false when
// the history should stop (a mismatch was already reported, or the path lies in a listed finding).
func c02Step(v *verifFS, ref *refFS, tag string, light bool) bool {
	var name string
	var op int
	if light {
		name = []string{"/d/x", "/e/x", "/x", "/d/g", "/e/d", "/f", "/t"}[vm.Choice(tag+"name", 7)]
		op = []int{0, 2, 4, 5, 6, 7}[vm.Choice(tag+"op", 6)]
	} else {
		pi := vm.Choice(tag+"parent", len(c02Parents))
		comp := persisters.VerifComponent(tag+"N", 1, "gtx_")
		name = c02Parents[pi] + "/" + comp
		if vm.Bool(tag + "useExistingDirAsName") {
			name = []string{"/d", "/e", "/f", "/d/g", "/\xc3\xa9\xc3\xa9", "/\xc3\xa9\xc3\xa9/y", "/m"}[vm.Choice(tag+"existing", 7)]
		}
		op = vm.Choice(tag+"op", c02Ops)
	}
	// the reference works on the canonical path; the filesystem is handed an equivalent spelling of it
	canon := name
	if !light && !c02Plain {
		switch vm.Choice(tag+"spelling", 3) {
		case 1:
			name = name[1:]
		case 2:
			name = "." + name
		}
	}
	known := false
	mark := func(id string, c bool) {
		vm.Known(id, c)
		if c {
			known = true
		}
	}
	_ = mark
	var err error
	want := false
	checkMode := false
	appendsBefore := v.Env.Tape.Appends
	switch op {
	case 0:
		err = v.FS.Mkdir(name, 0o755)
		want = ref.mkdir(canon)
	case 1:
		err = v.FS.MkdirAll(name, 0o755)
		want = ref.mkdirAll(canon)
	case 2:
		h, e := v.FS.Create(name)
		err = e
		if e == nil {
			err = h.Close()
		}
		want = ref.createMode(canon, false, true, 0o666) // (Create opens with permission bits 0666)
	case 3:
		excl := vm.Bool(tag + "excl")
		flag := os.O_RDWR | os.O_CREATE
		if excl {
			flag |= os.O_EXCL
		}
		vm.Known("C02-ocreate-oexcl-on-missing-file", excl)
		h, e := v.FS.OpenFile(name, flag, 0o644)
		err = e
		if e == nil {
			err = h.Close()
		}
		want = ref.create(canon, excl, false)
	case 4:
		err = v.FS.Remove(name)
		want = ref.remove(canon)
	case 5:
		err = v.FS.RemoveAll(name)
		want = ref.removeAll(canon)
	case 6:
		// rename an existing file or directory onto the name
		src := []string{"/d/g", "/d", "/f", "/e", "/e/d", "/m"}[vm.Choice(tag+"src", 6)]
		vm.Known("C02-rename-onto-itself", canon == src)
		vm.Known("C02-rename-onto-existing-entry", ref.find(canon) != nil && name != src)
		vm.Known("C02-rename-onto-tombstoned-name", canon == "/t")
		err = v.FS.Rename(src, name)
		want = ref.rename(src, canon)
	case 7:
		err = v.FS.Chmod(name, 0o600)
		want = ref.chmod(canon, 0o600)
		checkMode = want
	case 8:
		_, err = v.FS.Stat(name)
		want = ref.find(canon) != nil
	case 9:
		h, e := v.FS.Open(name)
		err = e
		if e == nil {
			h.Close()
		}
		want = ref.find(canon) != nil
	case 10:
		// any flag combination
		acc := []int{os.O_RDONLY, os.O_WRONLY, os.O_RDWR}[vm.Choice(tag+"acc", 3)]
		create, trunc, app := vm.Bool(tag+"oCreate"), vm.Bool(tag+"oTrunc"), vm.Bool(tag+"oAppend")
		excl := create && vm.Bool(tag+"oExcl")
		flag := acc
		if create {
			flag |= os.O_CREATE
		}
		if excl {
			flag |= os.O_EXCL
		}
		if trunc {
			flag |= os.O_TRUNC
		}
		if app {
			flag |= os.O_APPEND
		}
		// (O_TRUNC or O_APPEND without write access on a directory: POSIX and the in-memory reference filesystems
		// disagree with each other there, so nothing is demanded)
		if x := ref.find(canon); x != nil && x.dir && acc == os.O_RDONLY && (trunc || app) {
			vm.Assume(false)
		}
		h, e := v.FS.OpenFile(name, flag, 0o644)
		err = e
		if e == nil {
			err = h.Close()
		}
		want = ref.open(canon, acc != os.O_RDONLY, create, excl, trunc)
	}
	if op == 11 {
		// list: the names a directory handle returns are exactly the reference's children
		h, e := v.FS.Open(name)
		err = e
		x := ref.find(canon)
		want = x != nil
		if e == nil && x != nil && x.dir {
			names, le := h.Readdirnames(-1)
			vm.Assert("C02.list_ok", le == nil)
			nRef := 0
			for _, y := range ref.e {
				if y.live && y.name != "/" && refParent(y.name) == canon {
					nRef++
					found := false
					for _, n := range names {
						if n == y.name[strings.LastIndex(y.name, "/")+1:] {
							found = true
						}
					}
					vm.Assert("C02.list_contains_every_child", found)
				}
			}
			vm.Assert("C02.list_contains_nothing_else", len(names) == nRef)
		}
		if e == nil {
			h.Close()
		}
	}
	vm.Assert("C02.success_iff_reference_succeeds", (err == nil) == want)
	agree := true
	if want && err == nil {
		agree = c02Agree(v, ref, checkMode)
		vm.Assert("C02.successful_call_changes_what_reference_changes", agree)
	}
	if err != nil {
		vm.Assert("C02.failed_call_appends_nothing", v.Env.Tape.Appends == appendsBefore)
	}
	if !want {
		vm.Assert("C02.failed_call_changes_nothing", err == nil || c02Agree(v, ref, false))
	}
	vm.Assert("C02.locks_free", v.Env.LocksFree())
	vm.Cover("C02.some_success", err == nil)
	vm.Cover("C02.some_failure", err != nil)
	return !known && agree && (err == nil) == want
}

// Harness_C02_single_call_matches_reference: from a well-formed state, one call with a symbolic name
// succeeds or fails exactly when the reference does, changes exactly what the reference changes, and a
// failed call changes nothing. Thorough tier: a first call from a small concrete vocabulary precedes it, so
// that the symbolic call also runs from states the filesystem produced itself.
func Harness_C02_single_call_matches_reference() {
	twoCalls := vm.Tier() == "thorough" && vm.Bool("twoCalls")
	c02Plain = twoCalls
	v, ref := c02Prestate()
	if twoCalls {
		if !c02Step(v, ref, "a.", true) {
			return
		}
	}
	c02Step(v, ref, "", false)
}

// Harness_C02_reused_name_history: the four-call history "make A, rename it to B, use the name A again, change an
// attribute of B (or of the new A)", compared with the reference after every call. The first entry is a file with one
// byte or a directory, the old name is taken again by a file, by a directory or not at all, and the attribute call is
// Chmod, Chown or Chtimes.
func Harness_C02_reused_name_history() {
	v := verifNewFS(config.PipeConfig{}, false, true)
	v.rootOnly()
	ref := &refFS{}
	ref.add("/", true, 0o644)
	step := func(what string, err error, want bool, checkMode bool) bool {
		vm.Assert("C02.history_success_iff_reference_succeeds."+what, (err == nil) == want)
		if (err == nil) != want {
			return false
		}
		agree := c02Agree(v, ref, checkMode)
		vm.Assert("C02.history_changes_what_reference_changes."+what, agree)
		return agree
	}
	firstIsDir := vm.Bool("firstIsDirectory")
	if firstIsDir {
		if !step("make", v.FS.Mkdir("/a", 0o755), ref.mkdir("/a"), false) {
			return
		}
	} else {
		h, err := v.FS.Create("/a")
		if err == nil {
			_, err = h.Write([]byte("p"))
			if cerr := h.Close(); err == nil {
				err = cerr
			}
		}
		want := ref.createMode("/a", false, true, 0o666)
		if x := ref.find("/a"); x != nil {
			x.size = 1
		}
		if !step("make", err, want, false) {
			return
		}
	}
	if !step("rename", v.FS.Rename("/a", "/b"), ref.rename("/a", "/b"), false) {
		return
	}
	switch vm.Choice("oldNameTakenBy", 3) {
	case 0:
		h, err := v.FS.Create("/a")
		if err == nil {
			err = h.Close()
		}
		if !step("reuse", err, ref.createMode("/a", false, true, 0o666), false) {
			return
		}
	case 1:
		if !step("reuse", v.FS.Mkdir("/a", 0o755), ref.mkdir("/a"), false) {
			return
		}
	}
	target := []string{"/b", "/a"}[vm.Choice("attributeOf", 2)]
	exists := ref.find(target) != nil
	switch vm.Choice("attribute", 3) {
	case 0:
		step("chmod", v.FS.Chmod(target, 0o600), ref.chmod(target, 0o600), exists)
	case 1:
		step("chown", v.FS.Chown(target, 7, 8), exists, false)
	case 2:
		step("chtimes", v.FS.Chtimes(target, time.Unix(1000, 0), time.Unix(2000, 0)), exists, false)
	}
	// the renamed entry still holds its content
	if !firstIsDir {
		st, serr := v.FS.Stat("/b")
		vm.Assert("C02.history_renamed_file_keeps_its_size", serr == nil && st.Size() == 1)
	}
	vm.Assert("C02.history_locks_free", v.Env.LocksFree())
}

// Harness_C02_directory_comes_back: MkdirAll of a two-level path, the path goes away (removed with its ancestor,
// removed itself, renamed away itself or with its ancestor), MkdirAll of the same path again — compared with the
// reference after every call; afterwards the path exists and an entry can be created below it.
func Harness_C02_directory_comes_back() {
	v := verifNewFS(config.PipeConfig{}, false, true)
	v.rootOnly()
	ref := &refFS{}
	ref.add("/", true, 0o644)
	step := func(what string, err error, want bool) bool {
		vm.Assert("C02.comeback_success_iff_reference_succeeds."+what, (err == nil) == want)
		if (err == nil) != want {
			return false
		}
		agree := c02Agree(v, ref, false)
		vm.Assert("C02.comeback_changes_what_reference_changes."+what, agree)
		return agree
	}
	if !step("first", v.FS.MkdirAll("/a/b", 0o755), ref.mkdirAll("/a/b")) {
		return
	}
	var err error
	var want bool
	switch vm.Choice("goesAway", 4) {
	case 0:
		err, want = v.FS.RemoveAll("/a"), ref.removeAll("/a")
	case 1:
		err, want = v.FS.Remove("/a/b"), ref.remove("/a/b")
	case 2:
		err, want = v.FS.Rename("/a/b", "/c"), ref.rename("/a/b", "/c")
	case 3:
		err, want = v.FS.Rename("/a", "/c"), ref.rename("/a", "/c")
	}
	if !step("away", err, want) {
		return
	}
	if !step("again", v.FS.MkdirAll("/a/b", 0o755), ref.mkdirAll("/a/b")) {
		return
	}
	st, serr := v.FS.Stat("/a/b")
	vm.Assert("C02.comeback_directory_is_there", serr == nil && st.IsDir())
	h, cerr := v.FS.Create("/a/b/f")
	if cerr == nil {
		cerr = h.Close()
	}
	step("create_below", cerr, ref.createMode("/a/b/f", false, true, 0o666))
	vm.Assert("C02.comeback_locks_free", v.Env.LocksFree())
}

// Harness_C02_content_write_keeps_attributes: a content write through a handle changes the content and the size and
// nothing else. Mode and owner set before the handle is opened, or while it is open, are what the entry has after Close.
func Harness_C02_content_write_keeps_attributes() {
	v := verifNewFS(config.PipeConfig{}, false, true)
	v.rootOnly()
	v.Env.AddEntry("/f", tar.TypeReg, 2, false, "")
	copy(v.Env.Tape.LastMember().Data, []byte("pq"))
	which := vm.Choice("attribute", 3)
	set := func() {
		if which != 1 {
			vm.Assert("C02.attr_chmod_ok", v.FS.Chmod("/f", 0o600) == nil)
		}
		if which != 0 {
			vm.Assert("C02.attr_chown_ok", v.FS.Chown("/f", 7, 8) == nil)
		}
	}
	whileOpen := vm.Bool("whileTheHandleIsOpen")
	if !whileOpen {
		set()
	}
	h, err := v.FS.OpenFile("/f", os.O_RDWR, 0)
	vm.Assert("C02.attr_open_ok", err == nil)
	if err != nil {
		return
	}
	_, werr := h.Write([]byte("X"))
	vm.Assert("C02.attr_write_ok", werr == nil)
	if whileOpen {
		set()
	}
	vm.Assert("C02.attr_close_ok", h.Close() == nil)
	for _, r := range v.Env.P.VerifRows() {
		if r.Deleted == 1 || strings.TrimPrefix(r.Name, "/") != "f" {
			continue
		}
		vm.Assert("C02.content_write_changes_the_size_only", r.Size == 2)
		if which != 1 {
			vm.Assert("C02.content_write_keeps_the_mode", r.Mode&0o777 == 0o600)
		}
		if which != 0 {
			vm.Assert("C02.content_write_keeps_the_owner", r.UID == 7 && r.Gid == 8)
		}
	}
	vm.Assert("C02.attr_locks_free", v.Env.LocksFree())
}
