package fs

import (
	"archive/tar"
	"os"
	"time"

	vm "github.com/pojntfx/stfs/internal/verifmodel"
	"github.com/pojntfx/stfs/pkg/config"
	"github.com/spf13/afero"
)

func c15Prestate(withWriteBackend bool) *verifFS {
	v := verifNewFS(config.PipeConfig{}, true, withWriteBackend)
	v.rootOnly()
	v.Env.AddEntry("/d", tar.TypeDir, 0, false, "")
	v.Env.AddEntry("/d/f", tar.TypeReg, 3, false, "")
	v.Env.AddEntry("/e", tar.TypeReg, 0, false, "")
	return v
}

var c15Names = []string{"/d/f", "/d", "/e", "/new", "/d/new", "/"}

type c15Snapshot struct {
	appends, truncs, writeOpens, sqlWrites, tapeLen int64
}

func c15Snap(v *verifFS) c15Snapshot {
	t := v.Env.Tape
	return c15Snapshot{int64(t.Appends), int64(t.Truncates), int64(t.WriteOpens), int64(vm.TableWrites(v.Env.P.VerifDB())), t.Len}
}

func c15Unchanged(v *verifFS, s c15Snapshot) bool {
	n := c15Snap(v)
	return n == s
}

// Harness_C15_fs_methods: every STFS method on a read-only instance, with and without a write backend.
func Harness_C15_fs_methods() {
	v := c15Prestate(vm.Bool("withWriteBackend"))
	name := c15Names[vm.Choice("name", len(c15Names))]
	other := c15Names[vm.Choice("other", 3)+2]
	snap := c15Snap(v)
	f := v.FS
	var err error
	mutator := true
	op := vm.Choice("op", 14)
	switch op {
	case 0:
		_, err = f.Create(name)
	case 1:
		err = f.Mkdir(name, os.FileMode(vm.Int("perm", 0, 0o7777)))
	case 2:
		err = f.MkdirAll(name, os.FileMode(vm.Int("perm", 0, 0o7777)))
	case 3:
		err = f.Remove(name)
	case 4:
		err = f.RemoveAll(name)
	case 5:
		err = f.Rename(name, other)
	case 6:
		err = f.Chmod(name, os.FileMode(vm.Int("perm", 0, 0o7777)))
	case 7:
		err = f.Chown(name, vm.Int("uid", 0, 70000), vm.Int("gid", 0, 70000))
	case 8:
		err = f.Chtimes(name, time.Time{}, time.Time{})
	case 9:
		err = f.SymlinkIfPossible(name, other)
	case 10:
		mutator = false
		_, err = f.Stat(name)
	case 11:
		mutator = false
		_, _, err = f.LstatIfPossible(name)
	case 12:
		mutator = false
		_, err = f.ReadlinkIfPossible(name)
	case 13:
		mutator = false
		_, err = f.Open(name)
	}
	vm.Assert("C15.tape_and_index_unchanged", c15Unchanged(v, snap))
	if mutator {
		vm.Assert("C15.mutator_returns_permission_error", err == os.ErrPermission)
	}
	vm.Assert("C15.locks_free", v.Env.LocksFree())
	vm.Cover("C15.mutators_reached", mutator)
}

// Harness_C15_openfile_and_handle: OpenFile with an arbitrary flag word, then every handle method.
func Harness_C15_openfile_and_handle() {
	v := c15Prestate(vm.Bool("withWriteBackend"))
	name := c15Names[vm.Choice("name", len(c15Names))]
	flag := vm.Int("flag", 0, 1<<22)
	snap := c15Snap(v)
	h, err := v.FS.OpenFile(name, flag, os.FileMode(vm.Int("perm", 0, 0o7777)))
	vm.Assert("C15.openfile_changes_nothing", c15Unchanged(v, snap))
	if err != nil {
		vm.Assert("C15.openfile_never_creates", name != "/new" && name != "/d/new" || err == os.ErrNotExist)
		return
	}
	vm.Assert("C15.openfile_only_existing", name != "/new" && name != "/d/new")
	c15Handle(v, h, snap)
}

func c15Handle(v *verifFS, h afero.File, snap c15Snapshot) {
	// a sequence of handle calls (a read, a seek back, a close is what a media player does on a read-only share)
	steps := 2
	if vm.Tier() == "thorough" {
		steps = 3
	}
	for i := 0; i < steps; i++ {
		c15HandleStep(v, h, snap, "s"+string(rune('0'+i))+".")
	}
	cerr := h.Close()
	_ = cerr
	vm.Assert("C15.close_changes_nothing", c15Unchanged(v, snap))
	vm.Assert("C15.handle_locks_free", v.Env.LocksFree())
}

func c15HandleStep(v *verifFS, h afero.File, snap c15Snapshot, tag string) {
	buf := make([]byte, 2)
	var err error
	writer := false
	switch vm.Choice(tag+"hop", 12) {
	case 0:
		writer = true
		_, err = h.Write([]byte("xy"))
	case 1:
		writer = true
		_, err = h.WriteAt([]byte("x"), int64(vm.Int(tag+"off", -1, 4)))
	case 2:
		writer = true
		_, err = h.WriteString("z")
	case 3:
		writer = true
		err = h.Truncate(int64(vm.Int(tag+"size", -1, 5)))
	case 4:
		_, err = h.Read(buf)
	case 5:
		_, err = h.ReadAt(buf, int64(vm.Int(tag+"off", 0, 4)))
	case 6:
		_, err = h.Seek(int64(vm.Int(tag+"off", -2, 4)), vm.Int(tag+"whence", 0, 3))
	case 7:
		_, err = h.Readdir(vm.Int(tag+"n", -1, 2))
	case 8:
		_, err = h.Readdirnames(vm.Int(tag+"n", -1, 2))
	case 9:
		_, err = h.Stat()
	case 10:
		err = h.Sync()
	case 11:
		err = h.Close()
	}
	vm.Assert("C15.handle_changes_nothing", c15Unchanged(v, snap))
	if writer {
		vm.Assert("C15.handle_writer_returns_error", err != nil)
		vm.Assert("C15.handle_writer_returns_permission_or_isdir", err == os.ErrPermission || err == config.ErrIsDirectory)
	}
}

// Harness_C15_initialize_readonly: Initialize on a read-only instance (with and without a write backend) over a tape
// that has no root to offer — no drive file, an empty one, an index that is empty — never writes: it answers with a
// permission error. Over a tape with a root it only fills the index.
func Harness_C15_initialize_readonly() {
	v := verifNewFS(config.PipeConfig{}, true, vm.Bool("withWriteBackend"))
	t := v.Env.Tape
	state := vm.Choice("tape", 3)
	switch state {
	case 0:
		t.Exists = false
	case 1: // exists, empty
	case 2: // holds a root and an entry, index lost
		v.Env.AddTapeEntry("/", tar.TypeDir, 0)
		v.Env.AddTapeEntry("/d", tar.TypeDir, 0)
	}
	appends, opens, lenBefore := t.Appends, t.WriteOpens, t.Len
	_, err := v.FS.Initialize("/", os.ModePerm)
	vm.Assert("C15.initialize_never_writes_the_tape", t.Appends == appends && t.WriteOpens == opens && t.Len == lenBefore && t.Truncates == 0)
	if state != 2 {
		vm.Assert("C15.initialize_without_a_root_is_a_permission_error", err == os.ErrPermission)
	} else {
		vm.Assert("C15.initialize_over_a_tape_with_a_root_ok", err == nil)
	}
	vm.Assert("C15.initialize_locks_free", v.Env.LocksFree())
}
