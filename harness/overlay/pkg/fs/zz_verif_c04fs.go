package fs

import (
	"archive/tar"
	"os"
	"strings"

	"github.com/pojntfx/stfs/internal/suffix"
	vm "github.com/pojntfx/stfs/internal/verifmodel"
	"github.com/pojntfx/stfs/pkg/config"
)

// c04ContentBearing: a record whose member carries (possibly empty) content of the entry it names: a CREATE, or an
// UPDATE that replaces content.
func c04ContentBearing(h *tar.Header) bool {
	if h == nil || h.Typeflag != tar.TypeReg {
		return false
	}
	switch h.PAXRecords["STFS.Action"] {
	case "", "CREATE":
		return true
	case "UPDATE":
		// (a move record is an UPDATE that names the entry's old name; it inherits the entry's other records,
		// "replaces content" among them, but carries no content)
		_, isMove := h.PAXRecords["STFS.ReplacesName"]
		return h.PAXRecords["STFS.ReplacesContent"] == "true" && !isMove
	}
	return false
}

// Harness_C04_positions_after_filesystem_calls: after any one filesystem call (with and without a compressor in the
// pipeline) every live regular entry's content position is the start of a record on the tape, no later record holds
// newer content for that entry, and the greatest last-known position in the index is the start of the last record.
func Harness_C04_positions_after_filesystem_calls() {
	pipes := config.PipeConfig{}
	if vm.Bool("gzip") {
		pipes.Compression = config.CompressionFormatGZipKey
	}
	v := c10PrestateWith(pipes)
	// an entry whose content went through the pipeline of this instance (so that it can be read back and replaced)
	zh, zerr := v.FS.OpenFile("/d/z", os.O_RDWR|os.O_CREATE, 0o644)
	vm.Assert("C04.fs_setup_ok", zerr == nil)
	if zerr != nil {
		return
	}
	zh.Write([]byte("ab"))
	vm.Assert("C04.fs_setup_close_ok", zh.Close() == nil)
	op := vm.Choice("op", c10Ops)
	name := []string{"/d/z", "/d", "/f", "/d/new", "/missing"}[vm.Choice("name", 5)]
	other := c10Names[vm.Choice("other", 2)+3]
	t := v.Env.Tape
	segsBefore := len(t.Segs)
	err := c10Call(v, op, name, other)
	const rs = 20
	var lastMember *vm.Seg
	for _, g := range t.Segs {
		if g.Kind == vm.SegMember {
			lastMember = g
		}
	}
	maxLast := int64(-1)
	for _, r := range v.Env.P.VerifRows() {
		last := (r.Lastknownrecord*rs + r.Lastknownblock) * 512
		if last > maxLast {
			maxLast = last
		}
		if r.Deleted == 1 || r.Typeflag != int64(tar.TypeReg) || r.Linkname != "" {
			continue
		}
		pos := (r.Record*rs + r.Block) * 512
		atMemberStart := false
		newerContentElsewhere := false
		for _, g := range t.Segs {
			if g.Kind != vm.SegMember {
				continue
			}
			if g.Start == pos {
				atMemberStart = true
			}
			if g.Start > pos && c04ContentBearing(g.Hdr) {
				stripped, _ := suffix.RemoveSuffix(g.Hdr.Name, pipes.Compression, pipes.Encryption)
				if _, hasSize := g.Hdr.PAXRecords["STFS.UncompressedSize"]; !hasSize {
					stripped = g.Hdr.Name // (records written without running the pipeline carry no suffix)
				}
				if strings.TrimPrefix(stripped, "/") == strings.TrimPrefix(r.Name, "/") {
					newerContentElsewhere = true
				}
			}
		}
		vm.Assert("C04.fs_content_position_is_a_record_start", atMemberStart)
		if err == nil {
			vm.Assert("C04.fs_no_newer_content_record_behind_the_position", !newerContentElsewhere)
		}
	}
	if err == nil && len(t.Segs) > segsBefore && lastMember != nil {
		vm.Assert("C04.fs_last_known_position_is_the_last_record", maxLast == lastMember.Start)
	}
	vm.Cover("C04.fs_something_appended", len(t.Segs) > segsBefore)
}
