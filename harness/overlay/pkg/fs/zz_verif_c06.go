package fs

import (
	"archive/tar"
	"io"
	"io/fs"
	"os"

	models "github.com/pojntfx/stfs/internal/db/sqlite/models/metadata"
	vm "github.com/pojntfx/stfs/internal/verifmodel"
	"github.com/pojntfx/stfs/pkg/config"
	"github.com/pojntfx/stfs/pkg/recovery"
)

// c06Build puts [/][/a (700 bytes)][last record] on the tape; the last record's kind is chosen by the solver.
func c06Build(v *verifFS, kind int) *vm.Seg {
	v.Env.AddTapeEntry("/", tar.TypeDir, 0)
	v.Env.AddTapeEntry("/a", tar.TypeReg, 700)
	t := v.Env.Tape
	pax := map[string]string{}
	name := "/a"
	size := int64(0)
	switch kind {
	case 0: // CREATE of a new file with content
		name = "/b"
		size = 300
		pax["STFS.UncompressedSize"] = "300"
	case 1: // content UPDATE of /a
		size = 600
		pax["STFS.Version"], pax["STFS.Action"], pax["STFS.ReplacesContent"] = "1", "UPDATE", "true"
		pax["STFS.UncompressedSize"] = "600"
	case 2: // metadata UPDATE of /a
		pax["STFS.Version"], pax["STFS.Action"], pax["STFS.ReplacesContent"] = "1", "UPDATE", "false"
	case 3: // DELETE of /a
		pax["STFS.Version"], pax["STFS.Action"] = "1", "DELETE"
	case 4: // MOVE /a -> /c
		name = "/c"
		pax["STFS.Version"], pax["STFS.Action"], pax["STFS.ReplacesName"] = "1", "UPDATE", "/a"
	}
	hdr := &tar.Header{Typeflag: tar.TypeReg, Name: name, Size: size, Mode: 0o600, Format: tar.FormatPAX, PAXRecords: pax}
	var data []byte
	if size > 0 {
		data = make([]byte, size)
	}
	seg := t.AddMember(hdr, 3, size, data)
	t.AddTrailer()
	return seg
}

func c06Row(rows []*models.Header, name string) *models.Header {
	for _, r := range rows {
		if c01Norm(r.Name) == c01Norm(name) {
			return r
		}
	}
	return nil
}

func c06SameRow(a, b *models.Header) bool {
	if a == nil || b == nil {
		return a == nil && b == nil
	}
	return a.Deleted == b.Deleted && a.Size == b.Size && a.Record == b.Record && a.Block == b.Block && a.Typeflag == b.Typeflag && a.Mode == b.Mode
}

// Harness_C06_torn_tail_prefix_recoverable: the tape is cut at a symbolic byte offset inside or behind its
// last record. A rebuild terminates, never panics, and every entry the torn record does not name has
// exactly the row a rebuild of the intact prefix gives; a cut inside header blocks or the trailer is
// silent, a cut inside content is reported as an error after the record's own row was updated.
func Harness_C06_torn_tail_prefix_recoverable() {
	vm.SetUnwind(12)
	kind := vm.Choice("lastRecord", 5)
	// reference: the intact prefix (everything before the last record)
	ref := verifNewFS(config.PipeConfig{}, false, true)
	lastRef := c06Build(ref, kind)
	ref.Env.Tape.CutAt(lastRef.Start)
	refIdx, rerr := c01Rebuild(ref)
	vm.Assert("C06.prefix_rebuilds", rerr == nil)
	// the torn tape
	v := verifNewFS(config.PipeConfig{}, false, true)
	last := c06Build(v, kind)
	t := v.Env.Tape
	region := vm.Choice("cutRegion", 4)
	switch region {
	case 0: // inside the header blocks (any byte, aligned or not)
		t.CutAt(last.Start + vm.Int64("cut", 1, 512*3-1))
	case 1: // inside the content (only records that carry content)
		if last.Size == 0 {
			return
		}
		t.CutAt(last.Start + 512*3 + vm.Int64("cut", 0, last.Size-1))
	case 2: // inside the padding / trailer
		t.CutAt(last.Start + 512*3 + last.Size + vm.Int64("cut", 0, 1024+511))
		vm.Assume(t.Len < last.End()+1024)
	case 3: // nothing missing
	}
	// the tape has 3 records and 3 trailers: a rebuild needs at most 3 + 3 + 2 iterations of either loop
	vm.UnwindIsViolation("C06.rebuild_terminates")
	idx, err := c01Rebuild(v)
	vm.UnwindIsViolation("")
	rows := idx.VerifRows()
	refRows := refIdx.VerifRows()
	tornName := last.Hdr.Name
	// every other entry is exactly as in the prefix
	vm.Assert("C06.root_row_as_in_prefix", c06SameRow(c06Row(rows, "/"), c06Row(refRows, "/")))
	if kind == 0 {
		vm.Assert("C06.untouched_entry_as_in_prefix", c06SameRow(c06Row(rows, "/a"), c06Row(refRows, "/a")))
	}
	switch region {
	case 0:
		vm.Assert("C06.cut_in_header_is_silent", err == nil)
		vm.Assert("C06.cut_in_header_record_not_applied", c06SameRow(c06Row(rows, "/a"), c06Row(refRows, "/a")) && (tornName == "/a" || c06Row(rows, tornName) == nil))
	case 1:
		vm.Assert("C06.cut_in_content_is_reported", err != nil)
		// the torn record may be reflected in its own entry, and only there
		own := c06Row(rows, tornName)
		vm.Assert("C06.cut_in_content_own_row_points_at_torn_record", own != nil && (own.Record*20+own.Block)*512 == last.Start)
		// ... reflected in the entry's metadata, not by making the entry vanish
		vm.Assert("C06.cut_in_content_entry_still_exists", own != nil && own.Deleted != 1)
		// restoring the torn entry reports an error
		ferr := recovery.Fetch(
			config.DriveReaderConfig{Drive: t.OpenRead(), DriveIsRegular: true}, nil,
			config.PipeConfig{RecordSize: 20}, config.CryptoConfig{},
			func(path string, mode fs.FileMode) (io.WriteCloser, error) { return &c06Sink{}, nil },
			func(path string, mode fs.FileMode) error { return nil },
			int(own.Record), int(own.Block), "/out", false, nil,
		)
		vm.Assert("C06.fetch_of_torn_entry_is_an_error", ferr != nil)
	case 2, 3:
		vm.Assert("C06.complete_record_is_applied_silently", err == nil)
		switch kind {
		case 0:
			vm.Assert("C06.complete_create_applied", c06Row(rows, "/b") != nil && c06Row(rows, "/b").Size == 300)
		case 1:
			vm.Assert("C06.complete_update_applied", c06Row(rows, "/a").Size == 600 && (c06Row(rows, "/a").Record*20+c06Row(rows, "/a").Block)*512 == last.Start)
		case 3:
			vm.Assert("C06.complete_delete_applied", c06Row(rows, "/a").Deleted == 1)
		case 4:
			vm.Assert("C06.complete_move_applied", c06Row(rows, "/c") != nil && c06Row(rows, "/a") == nil)
		}
	}
	vm.Assert("C06.locks_free", v.Env.LocksFree())
	vm.Cover("C06.unaligned_cut", t.Len%512 != 0)
}

type c06Sink struct{ n int }

func (s *c06Sink) Write(p []byte) (int, error) { s.n += len(p); return len(p), nil }
func (s *c06Sink) Close() error                { return nil }

// Harness_C06_torn_recursive_remove: the last call removed a directory with two entries (one DELETE record each, in
// one archive) and the tape is cut behind the k-th of those records, at the record boundary or at any byte inside the
// next record's header blocks. A rebuild is silent, the entries whose DELETE record is complete are gone, and every
// other entry is exactly as it was before the call.
func Harness_C06_torn_recursive_remove() {
	vm.SetUnwind(16)
	v := verifNewFS(config.PipeConfig{}, false, true)
	v.rootOnly()
	v.Env.AddEntry("/d", tar.TypeDir, 0, false, "")
	v.Env.AddEntry("/d/g", tar.TypeReg, 3, false, "")
	v.Env.AddEntry("/d/h", tar.TypeReg, 0, false, "")
	v.Env.AddEntry("/keep", tar.TypeReg, 2, false, "")
	t := v.Env.Tape
	before := len(t.Segs)
	rerr := v.FS.RemoveAll("/d")
	vm.Assert("C06.removeall_ok", rerr == nil)
	if rerr != nil {
		return
	}
	var dels []*vm.Seg
	for _, g := range t.Segs[before:] {
		if g.Kind == vm.SegMember {
			dels = append(dels, g)
		}
	}
	vm.Assert("C06.removeall_wrote_one_record_per_entry", len(dels) == 3)
	if len(dels) != 3 {
		return
	}
	k := vm.Choice("completeRecords", 3) // 0, 1 or 2 of the three DELETE records survive completely
	cut := dels[k].Start + vm.Int64("cut", 0, 512*3-1)
	t.CutAt(cut)
	vm.UnwindIsViolation("C06.rebuild_terminates")
	idx, err := c01Rebuild(v)
	vm.UnwindIsViolation("")
	vm.Assert("C06.cut_between_delete_records_is_silent", err == nil)
	rows := idx.VerifRows()
	for i, g := range dels {
		r := c06Row(rows, g.Hdr.Name)
		vm.Assert("C06.entry_of_torn_removeall_has_a_row", r != nil)
		if r == nil {
			continue
		}
		if i < k {
			vm.Assert("C06.complete_delete_record_applied", r.Deleted == 1)
		} else {
			vm.Assert("C06.entry_behind_the_cut_still_there", r.Deleted != 1)
		}
	}
	keep := c06Row(rows, "/keep")
	vm.Assert("C06.unrelated_entry_untouched", keep != nil && keep.Deleted != 1 && keep.Size == 2)
	vm.Cover("C06.some_delete_records_complete", k > 0)
}

// Harness_C06_torn_directory_rename: the last call renamed a directory with two entries (one MOVE record each, in one
// archive) and the tape is cut behind the k-th of those records, at the record boundary or at any byte inside the next
// record's header blocks. A rebuild is silent; the entries whose MOVE record is complete are under their new names and
// every other entry is exactly where it was before the call, with its size.
func Harness_C06_torn_directory_rename() {
	vm.SetUnwind(16)
	v := verifNewFS(config.PipeConfig{}, false, true)
	v.rootOnly()
	v.Env.AddEntry("/d", tar.TypeDir, 0, false, "")
	v.Env.AddEntry("/d/g", tar.TypeReg, 3, false, "")
	v.Env.AddEntry("/d/h", tar.TypeReg, 0, false, "")
	v.Env.AddEntry("/keep", tar.TypeReg, 2, false, "")
	t := v.Env.Tape
	before := len(t.Segs)
	rerr := v.FS.Rename("/d", "/e")
	vm.Assert("C06.rename_ok", rerr == nil)
	if rerr != nil {
		return
	}
	var moves []*vm.Seg
	for _, g := range t.Segs[before:] {
		if g.Kind == vm.SegMember {
			moves = append(moves, g)
		}
	}
	vm.Assert("C06.rename_wrote_one_record_per_entry", len(moves) == 3)
	if len(moves) != 3 {
		return
	}
	k := vm.Choice("completeRecords", 3) // 0, 1 or 2 of the three MOVE records survive completely
	cut := moves[k].Start + vm.Int64("cut", 0, 512*3-1)
	t.CutAt(cut)
	vm.UnwindIsViolation("C06.rebuild_terminates")
	idx, err := c01Rebuild(v)
	vm.UnwindIsViolation("")
	vm.Assert("C06.cut_between_move_records_is_silent", err == nil)
	rows := idx.VerifRows()
	olds := []string{"/d", "/d/g", "/d/h"}
	sizes := []int64{0, 3, 0}
	for i, g := range moves {
		newRow, oldRow := c06Row(rows, g.Hdr.Name), c06Row(rows, g.Hdr.PAXRecords["STFS.ReplacesName"])
		_ = olds
		if i < k {
			vm.Assert("C06.complete_move_record_applied", newRow != nil && newRow.Deleted != 1 && oldRow == nil)
		} else {
			vm.Assert("C06.entry_behind_the_cut_keeps_its_name", oldRow != nil && oldRow.Deleted != 1 && newRow == nil)
			if oldRow != nil {
				vm.Assert("C06.entry_behind_the_cut_keeps_its_size", oldRow.Size == sizes[i])
			}
		}
	}
	keep := c06Row(rows, "/keep")
	vm.Assert("C06.unrelated_entry_untouched_by_torn_rename", keep != nil && keep.Deleted != 1 && keep.Size == 2)
	vm.Cover("C06.some_move_records_complete", k > 0)
}

// Harness_C06_initialize_over_torn_tape: the filesystem is opened (STFS.Initialize, no index) over a tape whose last
// record — a new file or a content update — is cut at any byte of its content. Initialize reports the tear and leaves
// the tape as it found it; every completely written entry is in the index exactly as a rebuild of the intact prefix
// has it.
func Harness_C06_initialize_over_torn_tape() {
	vm.SetUnwind(12)
	kind := vm.Choice("lastRecord", 2) // CREATE of /b with content, content UPDATE of /a
	ref := verifNewFS(config.PipeConfig{}, false, true)
	lastRef := c06Build(ref, kind)
	ref.Env.Tape.CutAt(lastRef.Start)
	refIdx, rerr := c01Rebuild(ref)
	vm.Assert("C06.prefix_rebuilds", rerr == nil)

	v := verifNewFS(config.PipeConfig{}, vm.Bool("readOnly"), true)
	last := c06Build(v, kind)
	t := v.Env.Tape
	t.CutAt(last.Start + 512*3 + vm.Int64("cut", 0, last.Size-1))
	lenBefore, appends := t.Len, t.Appends
	vm.UnwindIsViolation("C06.initialize_terminates")
	_, err := v.FS.Initialize("/", os.ModePerm)
	vm.UnwindIsViolation("")
	vm.Assert("C06.initialize_reports_the_tear", err != nil)
	vm.Assert("C06.initialize_leaves_the_torn_tape_alone", t.Len == lenBefore && t.Appends == appends && t.Truncates == 0)
	rows, refRows := v.Env.P.VerifRows(), refIdx.VerifRows()
	vm.Assert("C06.initialize_keeps_the_root", c06SameRow(c06Row(rows, "/"), c06Row(refRows, "/")) && c06Row(rows, "/") != nil)
	if kind == 0 {
		vm.Assert("C06.initialize_keeps_complete_entries", c06SameRow(c06Row(rows, "/a"), c06Row(refRows, "/a")) && c06Row(rows, "/a") != nil)
	} else {
		vm.Assert("C06.initialize_keeps_complete_entries", c06Row(rows, "/a") != nil && c06Row(rows, "/a").Deleted != 1)
	}
	vm.Assert("C06.initialize_locks_free", v.Env.LocksFree())
}
