package fs

import (
	"archive/tar"
	"strings"

	vm "github.com/pojntfx/stfs/internal/verifmodel"
	"github.com/pojntfx/stfs/pkg/config"
	"github.com/pojntfx/stfs/pkg/persisters"
)

type c12FS struct {
	v     *verifFS
	d     string
	sib   string
	child string
	tomb  bool
}

func c12FSPrestate() *c12FS {
	v := verifNewFS(config.PipeConfig{}, false, true)
	if vm.Bool("rebuiltIndex") {
		// opened over an index rebuilt from the tape: names are stored relative to the root ""
		v.Env.RelNames = true
		v.Env.AddEntry("/", tar.TypeDir, 0, false, "")
		v.Env.P.VerifSetRoot("")
	} else {
		v.rootOnly()
	}
	s := &c12FS{v: v}
	s.d = "/" + persisters.VerifComponent("D", 2, persisters.VerifAlphabet)
	v.Env.AddEntry(s.d, tar.TypeDir, 0, false, "")
	s.sib = "/" + persisters.VerifComponent("S", 2, persisters.VerifAlphabet)
	vm.Assume(s.sib != s.d)
	v.Env.AddEntry(s.sib, tar.TypeDir, 0, false, "")
	parent := s.d
	if vm.Bool("childUnderSibling") {
		parent = s.sib
	}
	s.tomb = vm.Bool("olderTombstoneInside")
	if s.tomb {
		// an entry of the directory that was removed earlier; its row is older than the rows of the live entries
		v.Env.AddEntry(s.d+"/0", tar.TypeReg, 0, true, "")
	}
	s.child = parent + "/" + persisters.VerifComponent("C", 3, "ab_.")
	v.Env.AddEntry(s.child, tar.TypeReg, 0, false, "")
	if s.sib+s.d != s.child {
		v.Env.AddEntry(s.sib+s.d, tar.TypeDir, 0, false, "")
		v.Env.AddEntry(s.sib+s.d+"/z", tar.TypeReg, 0, false, "")
	}
	return s
}

// liveNames lists the live rows' names (the index is the ground truth the walk is built from; listing
// faithfulness itself is C13).
func (s *c12FS) liveNames() map[string]bool {
	out := map[string]bool{}
	for _, r := range s.v.Env.P.VerifRows() {
		if r.Deleted != 1 {
			out["/"+strings.TrimPrefix(r.Name, "/")] = true
		}
	}
	return out
}

// Harness_C12_removeall: STFS.RemoveAll(D) removes exactly D and what is below it.
func Harness_C12_removeall() {
	s := c12FSPrestate()
	before := s.liveNames()
	err := s.v.FS.RemoveAll(s.d)
	vm.Assert("C12.removeall_no_error", err == nil)
	after := s.liveNames()
	for n := range before {
		inSubtree := n == s.d || strings.HasPrefix(n, s.d+"/")
		vm.Assert("C12.removeall_exact", after[n] == !inSubtree)
	}
	vm.Assert("C12.removeall_locks_free", s.v.Env.LocksFree())
	vm.Cover("C12.removeall_with_child", strings.HasPrefix(s.child, s.d+"/"))
}

// Harness_C12_rename_dir: STFS.Rename(D, T) moves exactly the subtree; renaming into the own subtree is refused.
func Harness_C12_rename_dir() {
	s := c12FSPrestate()
	into := vm.Bool("intoOwnSubtree")
	// (the refused renames are run without the older tombstone: the guard does not look at the directory's entries)
	vm.Assume(!(into && s.tomb))
	t := "/" + persisters.VerifComponent("T", 2, "abA_.")
	if into {
		// a destination one or two levels inside the directory; component names may start with dots
		sub := ""
		if vm.Bool("twoLevelsDown") {
			s.v.Env.AddEntry(s.d+"/q", tar.TypeDir, 0, false, "")
			sub = "/q"
		}
		t = s.d + sub + "/" + persisters.VerifComponent("T", 3, "ab_.")
		vm.Assume(t != s.child)
	}
	vm.Assume(t != s.d && t != s.sib)
	if !into && vm.Bool("entryOlderThanItsDirectory") {
		// an entry that was moved into a directory created later: its row is older (comes first in the index)
		// than the row of the directory that now holds it
		s.v.Env.AddEntry(s.d+"/q/w", tar.TypeReg, 0, false, "")
		s.v.Env.AddEntry(s.d+"/q", tar.TypeDir, 0, false, "")
	}
	onto := !into && vm.Bool("ontoSiblingDirectory")
	if onto {
		// the destination is an existing directory (with or without entries of its own below it)
		t = s.sib
	}
	before := s.liveNames()
	// equivalent spellings of the two paths
	src, dst := s.d, t
	if into {
		// (the guard against a rename into the own subtree is what depends on the spelling; renames to other places
		// are run under every spelling by C02 and C13)
		switch vm.Choice("srcSpelling", 3) {
		case 1:
			src = src[1:]
		case 2:
			src = "." + src
		}
		switch vm.Choice("dstSpelling", 3) {
		case 1:
			dst = dst[1:]
		case 2:
			dst = "." + dst
		}
	}
	err := s.v.FS.Rename(src, dst)
	if into {
		vm.Known("C12-rename-into-own-subtree", true)
		vm.Assert("C12.rename_into_own_subtree_refused", err != nil)
		after := s.liveNames()
		for n := range before {
			vm.Assert("C12.rename_refused_changes_nothing", after[n])
		}
		return
	}
	if onto {
		// whatever the call answers, nothing beneath the destination may disappear: those entries are outside the
		// renamed subtree (an occupied destination is refused, an empty one is replaced)
		after := s.liveNames()
		occupied := false
		for n := range before {
			if strings.HasPrefix(n, s.sib+"/") {
				occupied = true
				vm.Assert("C12.rename_onto_directory_keeps_its_entries", after[n])
			}
		}
		if occupied {
			vm.Assert("C12.rename_onto_occupied_directory_refused", err != nil)
			for n := range before {
				vm.Assert("C12.rename_onto_occupied_directory_changes_nothing", after[n])
			}
		}
		vm.Cover("C12.rename_onto_occupied_directory", occupied)
		return
	}
	vm.Assert("C12.rename_no_error", err == nil)
	after := s.liveNames()
	for n := range before {
		if n == s.d {
			vm.Assert("C12.rename_dir_moved", !after[n] && after[t])
		} else if strings.HasPrefix(n, s.d+"/") {
			vm.Assert("C12.rename_descendant_moved", !after[n] && after[t+n[len(s.d):]])
		} else {
			vm.Assert("C12.rename_outside_untouched", after[n])
		}
	}
	vm.Assert("C12.rename_locks_free", s.v.Env.LocksFree())
}

// Harness_C12_removeall_with_links: symbolic links are entries too. A link that lives inside the removed directory
// goes with it, a link outside that points into it stays (dangling), whatever the links point to.
func Harness_C12_removeall_with_links() {
	v := verifNewFS(config.PipeConfig{}, false, true)
	v.rootOnly()
	v.Env.AddEntry("/d", tar.TypeDir, 0, false, "")
	v.Env.AddEntry("/d/f", tar.TypeReg, 0, false, "")
	v.Env.AddEntry("/x", tar.TypeReg, 0, false, "")
	inside := vm.Bool("linkInsideThePointingOut")
	if inside {
		// a link at /d/l to /x: stored under the name of its target
		v.Env.AddEntry("/x", tar.TypeSymlink, 0, false, "/d/l")
	} else {
		// a link at /m to /d/f
		v.Env.AddEntry("/d/f", tar.TypeSymlink, 0, false, "/m")
	}
	err := v.FS.RemoveAll("/d")
	vm.Assert("C12.removeall_with_links_ok", err == nil)
	_, _, e1 := v.FS.LstatIfPossible("/d/l")
	_, _, e2 := v.FS.LstatIfPossible("/m")
	_, e3 := v.FS.Stat("/x")
	_, e4 := v.FS.Stat("/d/f")
	vm.Assert("C12.entry_outside_removed_directory_stays", e3 == nil)
	vm.Assert("C12.entry_inside_removed_directory_is_removed", e4 != nil)
	// (only what happens to the links themselves is the listed finding)
	vm.Known("C12-links-are-filed-under-their-target", true)
	if inside {
		vm.Assert("C12.link_inside_removed_directory_is_removed", e1 != nil)
	} else {
		vm.Assert("C12.link_outside_removed_directory_stays", e2 == nil)
	}
}
