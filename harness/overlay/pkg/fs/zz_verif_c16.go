package fs

import (
	"archive/tar"
	"os"

	models "github.com/pojntfx/stfs/internal/db/sqlite/models/metadata"
	vm "github.com/pojntfx/stfs/internal/verifmodel"
	"github.com/pojntfx/stfs/pkg/config"
)

// Harness_C16_initialize_over_existing_tape: Initialize over {index absent, current, stale} x {tape intact,
// cut inside the last member's header / data / trailer at a symbolic byte offset, empty file, missing file}
// x {read-only, writable}.
func Harness_C16_initialize_over_existing_tape() {
	readOnly := vm.Bool("readOnly")
	v := verifNewFS(config.PipeConfig{}, readOnly, true)
	env := v.Env
	tapeState := vm.Choice("tape", 6)
	indexState := vm.Choice("index", 3)
	var rows []*models.Header
	if tapeState <= 3 {
		rows = append(rows, env.AddTapeEntry("/", tar.TypeDir, 0))
		rows = append(rows, env.AddTapeEntry("/d", tar.TypeDir, 0))
		switch vm.Choice("reuse", 3) {
		case 1:
			// something was created and removed again: the tape holds its CREATE and DELETE records
			rows = append(rows, env.AddTapeTombstone("/d/x", tar.TypeReg))
		case 2:
			// ... and created once more under the same name (the second CREATE replaces the tombstone row)
			env.AddTapeTombstone("/d/x", tar.TypeReg)
			rows = append(rows, env.AddTapeEntry("/d/x", tar.TypeReg, 0))
		}
		rows = append(rows, env.AddTapeEntry("/d/g", tar.TypeReg, 700))
	}
	t := env.Tape
	last := t.LastMember()
	hasRootOnTape := tapeState <= 3
	switch tapeState {
	case 0: // intact
	case 1: // cut inside the last member's header blocks
		off := vm.Int64("cut", 1, 512*3-1)
		t.CutAt(last.Start + off)
	case 2: // cut inside the last member's data
		off := vm.Int64("cut", 0, 699)
		t.CutAt(last.Start + 512*last.HBlocks + off)
	case 3: // cut inside the final trailer
		off := vm.Int64("cut", 0, 1023)
		t.CutAt(last.End() + off)
	case 4: // existing but empty drive file
	case 5: // no drive file at all
		t.Exists = false
	}
	aligned := t.Len%512 == 0
	switch indexState {
	case 0: // no index yet
	case 1: // index reflects the whole (uncut) tape
		for _, r := range rows {
			env.P.VerifInsert(r)
		}
	case 2: // stale index: reflects only a prefix of the tape
		for i, r := range rows {
			if i < len(rows)-1 {
				env.P.VerifInsert(r)
			}
		}
	}
	vm.Known("C16-torn-data-makes-initialize-overwrite", tapeState == 2 && indexState == 0)
	vm.Known("C16-empty-drive-file-cannot-be-initialized", tapeState == 4 && indexState == 0)
	vm.Known("C16-stale-index-is-trusted", indexState == 2 || (indexState == 1 && tapeState >= 1 && tapeState <= 2))
	vm.Known("C16-unaligned-tail-append-off-grid", !aligned)

	snap := c05Take(t)
	lenBefore := t.Len
	appendsBefore := t.Appends
	root, err := v.FS.Initialize("/", os.ModePerm)

	vm.Assert("C16.initialize_never_truncates_or_rewrites", t.Truncates == 0 && t.Len >= lenBefore && c05PrefixIntact(t, snap))
	if hasRootOnTape {
		vm.Assert("C16.nothing_appended_when_root_exists", t.Appends == appendsBefore)
	}
	if readOnly {
		vm.Assert("C16.readonly_never_writes_tape", t.Appends == appendsBefore && t.WriteOpens == 0)
	}
	vm.Assert("C16.locks_free_after_initialize", env.LocksFree())
	if !hasRootOnTape && !readOnly && indexState == 0 {
		// nothing to preserve: a root is created
		vm.Assert("C16.fresh_or_empty_drive_gets_a_root", err == nil)
	}
	if err != nil {
		vm.Cover("C16.initialize_fails_somewhere", true)
		return
	}
	vm.Assert("C16.root_is_a_root_spelling", root == "/" || root == "")
	// faithful: what the instance shows equals what a from-scratch rebuild of this tape shows
	scratch, serr := c01Rebuild(v)
	if serr == nil {
		sm := config.MetadataConfig{Metadata: scratch}
		for _, u := range []string{"/", "/d", "/d/g", "/d/x"} {
			vm.Assert("C16.view_equals_scratch_rebuild", c01SameView(env.Metadata, sm, u))
		}
	}
	// faithful also means usable: a file the instance shows with a size can be read back in full
	if st, e := v.FS.Stat("/d/g"); e == nil && !st.IsDir() && st.Size() > 0 {
		rh, oe := v.FS.Open("/d/g")
		vm.Assert("C16.shown_file_opens", oe == nil)
		if oe == nil {
			buf := make([]byte, 701)
			n, _ := rh.Read(buf)
			vm.Assert("C16.shown_file_reads_back_in_full", int64(n) == st.Size())
			rh.Close()
		}
	}
	if readOnly || tapeState == 1 {
		// (appending after a tail that is cut inside header blocks makes old header bytes run into new ones;
		// how archive/tar parses that overlap is a byte-level question the structural tape model cannot answer)
		return
	}
	// entries written afterwards are retrievable and survive a rebuild; also when they reuse a name that is
	// removed first
	if tapeState == 0 && vm.Bool("probeReusesName") {
		rerr := v.FS.Remove("/d/g")
		vm.Assert("C16.remove_after_initialize_succeeds", rerr == nil)
		if rerr != nil {
			return
		}
		cerr := v.FS.Mkdir("/d/g", 0o755)
		vm.Assert("C16.recreate_after_initialize_succeeds", cerr == nil)
		if cerr != nil {
			return
		}
	}
	merr := v.FS.Mkdir("/n", 0o755)
	vm.Assert("C16.write_after_initialize_succeeds", merr == nil)
	if merr != nil {
		return
	}
	lm := t.LastMember()
	vm.Assert("C16.append_on_block_grid", lm.Start%512 == 0)
	found := false
	for _, r := range env.P.VerifRows() {
		if c01Norm(r.Name) == "n" && r.Deleted != 1 {
			found = true
			pos := (r.Record*20 + r.Block) * 512
			vm.Assert("C16.new_entry_indexed_at_its_record", pos == lm.Start || pos == lm.Start+512*(lm.HBlocks-1))
		}
	}
	vm.Assert("C16.new_entry_in_index", found)
	scratch2, serr2 := c01Rebuild(v)
	vm.Assert("C16.tape_still_rebuilds_after_write", serr2 == nil)
	if serr2 == nil {
		sm := config.MetadataConfig{Metadata: scratch2}
		vm.Assert("C16.new_entry_survives_rebuild", c01SameView(env.Metadata, sm, "/n") && c01SameView(env.Metadata, sm, "/"))
	}
	vm.Cover("C16.full_path_reached", true)
}

// Harness_C16_reopen_protected_tape: a tape written with header encryption and/or signatures is opened by a second
// instance (same keys, no index yet): the rebuild on open decrypts and verifies with the reading side's keys, appends
// nothing, and shows what was written.
func Harness_C16_reopen_protected_tape() {
	pipes := config.PipeConfig{}
	switch vm.Choice("protection", 3) {
	case 0:
		pipes.Encryption = config.EncryptionFormatAgeKey
	case 1:
		pipes.Signature = config.SignatureFormatMinisignKey
	case 2:
		pipes.Encryption = config.EncryptionFormatAgeKey
		pipes.Signature = config.SignatureFormatMinisignKey
	}
	rc, wc := verifCrypto(pipes)
	first := verifNewFSCrypto(pipes, rc, wc, false, true)
	first.Env.Tape.Exists = false
	_, ierr := first.FS.Initialize("/", os.ModePerm)
	vm.Assert("C16.protected_first_initialize_ok", ierr == nil)
	if ierr != nil {
		return
	}
	vm.Assert("C16.protected_mkdir_ok", first.FS.Mkdir("/d", 0o755) == nil)
	// the second instance: same drive, same keys, an empty index
	second := verifNewFSCrypto(pipes, rc, wc, vm.Bool("readOnly"), true)
	vm.GhostFS[second.Env.Drive] = first.Env.Tape
	second.Env.Tape = first.Env.Tape
	t := first.Env.Tape
	appendsBefore, lenBefore := t.Appends, t.Len
	_, err := second.FS.Initialize("/", os.ModePerm)
	vm.Assert("C16.protected_reopen_ok", err == nil)
	vm.Assert("C16.protected_reopen_appends_nothing", t.Appends == appendsBefore && t.Len == lenBefore && t.Truncates == 0)
	if err == nil {
		st, serr := second.FS.Stat("/d")
		vm.Assert("C16.protected_reopen_shows_what_was_written", serr == nil && st.IsDir())
	}
	vm.Assert("C16.protected_reopen_locks_free", second.Env.LocksFree())
}
