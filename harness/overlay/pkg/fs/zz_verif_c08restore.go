package fs

import (
	"io"
	"io/fs"
	"os"

	vm "github.com/pojntfx/stfs/internal/verifmodel"
	"github.com/pojntfx/stfs/pkg/config"
)

// Harness_C08_restore_gate: restoring through the archive interface (Operations.Restore, which is also what File.Read
// runs) reports success only if no verification it ran on the way failed. The record is written by the real
// filesystem with signatures on; afterwards nothing, a content byte, or the header's signature text is altered on
// the tape. (The primitives are opaque: the solver chooses the verdict for anything that was not signed.)
func Harness_C08_restore_gate() {
	pipes := config.PipeConfig{Signature: c03Sig[1]}
	if vm.Bool("encrypted") {
		pipes.Encryption = config.EncryptionFormatAgeKey
	}
	rc, wc := verifCrypto(pipes)
	v := verifNewFSCrypto(pipes, rc, wc, false, true)
	v.Env.Tape.Exists = false
	_, ierr := v.FS.Initialize("/", os.ModePerm)
	vm.Assert("C08.restore_gate_initialize_ok", ierr == nil)
	if ierr != nil {
		return
	}
	h, cerr := v.FS.Create("/signed")
	vm.Assert("C08.restore_gate_create_ok", cerr == nil)
	if cerr != nil {
		return
	}
	h.Write([]byte("abc"))
	vm.Assert("C08.restore_gate_close_ok", h.Close() == nil)
	last := v.Env.Tape.LastMember()
	tamper := vm.Choice("tamper", 3)
	switch tamper {
	case 1:
		if len(last.Data) > 0 {
			last.Data[len(last.Data)-1] = 'Q'
		}
	case 2:
		last.Hdr.PAXRecords["STFS.Signature"] = vm.String("forgedsig", 1, 1, "A!")
	}
	verifiesBefore, streamsBefore := len(vm.VerifyEvents), len(vm.StreamVerifies)
	sink := &c03Sink{}
	err := v.Env.ReadOps.Restore(
		func(path string, mode fs.FileMode) (io.WriteCloser, error) { return sink, nil },
		func(path string, mode fs.FileMode) error { return nil },
		"/signed", "/out", true,
	)
	failed := false
	for i, ev := range vm.VerifyEvents {
		if i >= verifiesBefore && !ev.Result {
			failed = true
		}
	}
	for i, ev := range vm.StreamVerifies {
		if i >= streamsBefore && !ev.Result {
			failed = true
		}
	}
	vm.Assert("C08.restore_nil_implies_no_verification_failed", err != nil || !failed)
	vm.Assert("C08.restore_of_untouched_record_ok", tamper != 0 || err == nil)
	vm.Assert("C08.restore_gate_locks_free", v.Env.LocksFree())
	vm.Cover("C08.restore_rejects_something", err != nil)
	vm.Cover("C08.restore_accepts_something", err == nil)
}
