package fs

import (
	"os"

	vm "github.com/pojntfx/stfs/internal/verifmodel"
	"github.com/pojntfx/stfs/pkg/config"
	"github.com/pojntfx/stfs/pkg/persisters"
	"github.com/pojntfx/stfs/pkg/recovery"

	"archive/tar"
)

// c07Reindex replays the whole tape into an existing index without wiping it (recovery index default).
func c07Reindex(v *verifFS, into *persisters.MetadataPersister) error {
	reader, err := v.Env.Backend.GetReader()
	if err != nil {
		v.Env.Backend.CloseReader()
		return err
	}
	ops := v.Env.ReadOps
	err = recovery.Index(
		reader, nil, config.MetadataConfig{Metadata: into}, ops.GetPipes(), ops.GetCrypto(),
		0, 0, false, false, 0,
		func(hdr *tar.Header, i int) error { return nil },
		func(hdr *tar.Header, isRegular bool) error { return nil },
		nil,
	)
	if cerr := v.Env.Backend.CloseReader(); err == nil {
		err = cerr
	}
	return err
}

func c07Snapshot(v *verifFS) *persisters.MetadataPersister {
	s := persisters.VerifNewPersister()
	vm.TableClone(v.Env.P.VerifDB(), s.VerifDB())
	s.VerifSetRoot(v.Env.P.VerifRoot())
	return s
}

var c07Names = []string{"/a", "/b"}

var c07Calls int

func c07Op(v *verifFS, tag string) error {
	op := vm.Choice(tag, 9)
	switch op {
	case 0:
		// the mode differs from call to call so that a re-created directory is distinguishable
		c07Calls++
		return v.FS.Mkdir("/a", os.FileMode(0o700+c07Calls))
	case 1:
		h, err := v.FS.Create("/a")
		if err != nil {
			return err
		}
		return h.Close()
	case 2:
		h, err := v.FS.OpenFile("/b", os.O_RDWR|os.O_CREATE, 0o644)
		if err != nil {
			return err
		}
		if _, err := h.Write([]byte("z")); err != nil {
			h.Close()
			return err
		}
		return h.Close()
	case 3:
		return v.FS.Remove("/a")
	case 4:
		return v.FS.Rename("/a", "/b")
	case 5:
		return v.FS.Rename("/b", "/a")
	case 6:
		return v.FS.Chmod("/a", 0o600)
	case 7:
		// a symbolic link whose own path is one of the reused names
		return v.FS.SymlinkIfPossible("/b", "/a")
	case 8:
		return v.FS.Remove("/b")
	}
	return nil
}

// Harness_C07_reindex_converges: a history of up to 3 calls over two names (so names are reused: delete then
// recreate, rename onto previously used names); the index after each prefix is kept; replaying the whole
// tape into each of them without wiping reports no error and shows what a rebuild from scratch shows.
func Harness_C07_reindex_converges() {
	v := verifNewFS(config.PipeConfig{}, false, true)
	v.Env.Tape.Exists = false // a fresh start: no drive file yet
	root, ierr := v.FS.Initialize("/", os.ModePerm)
	if ierr != nil {
		vm.Note(ierr.Error())
	}
	vm.Note(root)
	vm.Assert("C07.initialize_ok", ierr == nil && root == "/")
	if ierr != nil {
		return
	}
	n := 3
	if vm.Tier() == "thorough" {
		n = 4
	}
	snaps := []*persisters.MetadataPersister{c07Snapshot(v)}
	hasMove := false
	renameWithLink := false
	for i := 0; i < n; i++ {
		tag := "op" + string(rune('0'+i))
		before := v.Env.Tape.Appends
		rows := v.Env.P.VerifRows()
		linkExists := false
		for _, r := range rows {
			if r.Deleted != 1 && r.Linkname != "" {
				linkExists = true
			}
		}
		_ = c07Op(v, tag)
		if v.Env.Tape.Appends != before {
			// a record was appended: was it a move? (a row changed its name)
			after := v.Env.P.VerifRows()
			for j := range rows {
				if j < len(after) && after[j].Name != rows[j].Name {
					hasMove = true
					if linkExists {
						renameWithLink = true
					}
				}
			}
		}
		snaps = append(snaps, c07Snapshot(v))
	}
	// the tape is continued by a second instance whose index was rebuilt from it: such an index stores names relative
	// to the root, and so do the records that instance writes — here the removal of an entry that is still there
	continued := false
	if vm.Bool("continuedBySecondInstance") {
		for _, r := range v.Env.P.VerifRows() {
			if !continued && r.Deleted != 1 && r.Linkname == "" && (r.Name == "/a" || r.Name == "/b") && r.Typeflag != int64(tar.TypeDir) {
				v.Env.Tape.AddMember(&tar.Header{Typeflag: byte(r.Typeflag), Name: r.Name[1:], Mode: r.Mode, Format: tar.FormatPAX,
					PAXRecords: map[string]string{"STFS.Version": "1", "STFS.Action": "DELETE"}}, 3, 0, nil)
				v.Env.Tape.AddTrailer()
				continued = true
			}
		}
		vm.Assume(continued)
	}
	vm.Known("C07-replay-of-move-not-idempotent", hasMove)
	vm.Known("C07-rename-while-a-link-exists", renameWithLink)
	scratch, serr := c01Rebuild(v)
	vm.Assert("C07.scratch_rebuild_ok", serr == nil)
	if serr != nil {
		return
	}
	sm := config.MetadataConfig{Metadata: scratch}
	for _, s := range snaps {
		err := c07Reindex(v, s)
		vm.Assert("C07.reindex_reports_no_error", err == nil)
		if err != nil {
			continue
		}
		m := config.MetadataConfig{Metadata: s}
		for _, u := range []string{"/", "/a", "/b"} {
			vm.Assert("C07.reindex_converges_to_scratch_rebuild", c01SameView(m, sm, u))
		}
	}
	// running the indexer twice changes nothing the second time
	live := config.MetadataConfig{Metadata: v.Env.P}
	for _, u := range []string{"/", "/a", "/b"} {
		// (the first instance's own index has not seen what the second instance appended)
		vm.Assert("C07.live_index_equals_scratch_rebuild", continued || c01SameView(live, sm, u))
	}
	vm.Cover("C07.history_continued_by_second_instance", continued)
	vm.Cover("C07.history_with_move", hasMove)
}
