package fs

import (
	"archive/tar"
	"io"
	"os"

	vm "github.com/pojntfx/stfs/internal/verifmodel"
	"github.com/pojntfx/stfs/pkg/config"
	"github.com/spf13/afero"
)

// ---- reference: a byte array with a cursor, opened with the same flags ----

type refFile struct {
	data   []byte
	pos    int64
	read   bool
	write  bool
	append bool
	wmode  bool // the real handle has entered write mode (a write-class call was accepted)
}

// returns (n, eof, ok)
func (r *refFile) doRead(k int) (int, bool, bool) {
	if !r.read {
		return 0, false, false
	}
	if k <= 0 {
		return 0, false, true
	}
	rem := int64(len(r.data)) - r.pos
	if rem <= 0 {
		return 0, true, true
	}
	n := int64(k)
	if rem < n {
		n = rem
	}
	r.pos += n
	return int(n), false, true
}

func (r *refFile) doSeek(off int64, whence int) (int64, bool) {
	var np int64
	switch whence {
	case io.SeekStart:
		np = off
	case io.SeekCurrent:
		np = r.pos + off
	case io.SeekEnd:
		np = int64(len(r.data)) + off
	default:
		return 0, false
	}
	if np < 0 {
		return 0, false
	}
	r.pos = np
	return np, true
}

func (r *refFile) writeAtPos(p []byte, at int64) {
	for int64(len(r.data)) < at+int64(len(p)) {
		r.data = append(r.data, 0)
	}
	copy(r.data[at:], p)
}

func (r *refFile) doWrite(p []byte) (int, bool) {
	if !r.write {
		return 0, false
	}
	if r.append {
		r.pos = int64(len(r.data))
	}
	r.writeAtPos(p, r.pos)
	r.pos += int64(len(p))
	return len(p), true
}

func (r *refFile) doTruncate(n int64) bool {
	if !r.write || n < 0 {
		return false
	}
	for int64(len(r.data)) < n {
		r.data = append(r.data, 0)
	}
	r.data = r.data[:n]
	return true
}

// ---- the differential harness ----

func c14Open(v *verifFS, content []byte, mode int) (afero.File, *refFile, bool) {
	ref := &refFile{data: append([]byte{}, content...)}
	flag := os.O_RDONLY
	switch mode {
	case 0:
		flag = os.O_RDONLY
		ref.read = true
	case 1:
		flag = os.O_RDWR
		ref.read, ref.write = true, true
	case 2:
		flag = os.O_WRONLY
		ref.write = true
	case 3:
		flag = os.O_RDWR | os.O_APPEND
		ref.read, ref.write, ref.append = true, true, true
	case 4:
		flag = os.O_RDWR | os.O_TRUNC
		ref.read, ref.write = true, true
		ref.data = nil
	}
	h, err := v.FS.OpenFile("/f", flag, 0o644)
	return h, ref, err == nil
}

const c14Kinds = 8

// c14Step performs one symbolic handle call on both and compares the results.
// c14Observe restricts the next c14Step to the calls that observe the handle's state: Read, Seek, Stat.
var c14Observe bool

func c14Step(h afero.File, ref *refFile, tag string) {
	kind := 0
	if c14Observe {
		kind = []int{0, 1, 5}[vm.Choice(tag+".kind", 3)]
	} else {
		kind = vm.Choice(tag+".kind", c14Kinds)
	}
	switch kind {
	case 0: // Read(k)
		k := vm.Int(tag+".k", 0, 3)
		kc := vm.Concretize(k)
		buf := make([]byte, kc)
		startPos := ref.pos
		n, err := h.Read(buf)
		wn, weof, wok := ref.doRead(kc)
		if !wok {
			vm.Assert("C14.read_refused_like_reference", err != nil)
			// (a negative count breaks io.Reader's contract: io.ReadAll and bytes.Buffer.ReadFrom panic on it)
			vm.Assert("C14.refused_call_reports_count_zero", n == 0)
			return
		}
		vm.Assert("C14.read_succeeds_like_reference", err == nil || err == io.EOF)
		vm.Assert("C14.read_count", n == wn)
		vm.Assert("C14.read_eof_signalling", !weof || err == io.EOF)
		vm.Assert("C14.read_no_early_eof", err != io.EOF || wn < kc || weof)
		if n == wn {
			for i := 0; i < wn; i++ {
				vm.Assert("C14.read_bytes", buf[i] == ref.data[startPos+int64(i)])
			}
		}
	case 1: // Seek(off, whence)
		off := int64(vm.Int(tag+".off", -1, 5))
		whence := vm.Int(tag+".whence", 0, 3)
		got, err := h.Seek(off, whence)
		want, ok := ref.doSeek(off, whence)
		vm.Assert("C14.seek_success_like_reference", (err == nil) == ok)
		if ok && err == nil {
			vm.Assert("C14.seek_returns_new_offset", got == want)
		}
	case 2: // Write(p)
		p := []byte("XY")[:vm.Concretize(vm.Int(tag+".len", 1, 2))]
		if ref.write {
			ref.wmode = true
		}
		n, err := h.Write(p)
		wn, ok := ref.doWrite(p)
		vm.Assert("C14.write_success_like_reference", (err == nil) == ok)
		if ok && err == nil {
			vm.Assert("C14.write_count", n == wn)
		}
		if !ok && err != nil {
			vm.Assert("C14.refused_call_reports_count_zero", n == 0)
		}
	case 3: // WriteAt(p, off)
		off := int64(vm.Int(tag+".off", 0, 5))
		if ref.append {
			return
		}
		if ref.write {
			ref.wmode = true
		}
		n, err := h.WriteAt([]byte("Z"), off)
		ok := ref.write
		if ok {
			ref.writeAtPos([]byte("Z"), off)
		}
		vm.Assert("C14.writeat_success_like_reference", (err == nil) == ok)
		if ok && err == nil {
			vm.Assert("C14.writeat_count", n == 1)
		}
		if !ok && err != nil {
			vm.Assert("C14.refused_call_reports_count_zero", n == 0)
		}
	case 4: // Truncate(n)
		n := int64(vm.Int(tag+".size", -1, 6))
		if ref.write && n >= 0 { // a negative size is refused before the handle enters write mode
			ref.wmode = true
		}
		err := h.Truncate(n)
		ok := ref.doTruncate(n)
		vm.Assert("C14.truncate_success_like_reference", (err == nil) == ok)
	case 7: // ReadAt(k, off): a positioned read; the offset used by Read, Write and Seek stays where it is
		k := vm.Concretize(vm.Int(tag+".k", 1, 3))
		off := int64(vm.Int(tag+".off", 0, 5))
		buf := make([]byte, k)
		n, err := h.ReadAt(buf, off)
		if !ref.read {
			vm.Assert("C14.readat_refused_like_reference", err != nil)
			vm.Assert("C14.refused_call_reports_count_zero", n == 0)
			return
		}
		want := int64(len(ref.data)) - off
		if want < 0 {
			want = 0
		}
		if want > int64(k) {
			want = int64(k)
		}
		vm.Assert("C14.readat_count", int64(n) == want)
		vm.Assert("C14.readat_error", (err == nil && int64(n) == int64(k)) || (err == io.EOF && int64(n) < int64(k)) || (err == nil && int64(n) == want))
		if int64(n) == want {
			for i := int64(0); i < want; i++ {
				vm.Assert("C14.readat_bytes", buf[i] == ref.data[off+i])
			}
		}
	case 6: // Sync: flushes what was written; the handle, its content and its offset stay as they are
		err := h.Sync()
		vm.Assert("C14.sync_ok", err == nil)
	case 5: // Stat
		st, err := h.Stat()
		vm.Assert("C14.stat_ok", err == nil)
		if err == nil && ref.write {
			_ = st
		}
	}
}

// Harness_C14_handle_matches_byte_array: an open handle against a byte-array reference for every sequence
// of up to N symbolic calls, then Close, Stat and a fresh read.
func Harness_C14_handle_matches_byte_array() {
	fileCache := vm.Bool("fileWriteCache")
	if fileCache {
		verifWriteCacheType = config.WriteCacheTypeFile
	}
	v := verifNewFS(config.PipeConfig{}, false, true)
	v.rootOnly()
	maxLen := 3
	if vm.Tier() != "thorough" {
		// (quick tier: 0..2 bytes, and the file cache only over the 2-byte file; the thorough tier has every length)
		maxLen = 2
	}
	l := vm.Concretize(vm.Int("len", 0, maxLen))
	if vm.Tier() != "thorough" && fileCache {
		vm.Assume(l == 2)
	}
	content := make([]byte, l)
	for i := range content {
		content[i] = vm.Byte("c", "pqr")
	}
	row := v.Env.AddEntry("/f", tar.TypeReg, int64(l), false, "")
	_ = row
	if l > 0 {
		copy(v.Env.Tape.LastMember().Data, content)
	}
	mode := vm.Choice("mode", 5)
	h, ref, ok := c14Open(v, content, mode)
	vm.Assert("C14.open_ok", ok)
	if !ok {
		return
	}
	steps := 2
	if vm.Tier() == "thorough" && !fileCache && l <= 2 {
		// (three calls with the memory cache, whose wrapper is STFS's own code, over files of up to two bytes; the file
		// cache is an *os.File, and the three-byte file runs two-call sequences: 8^3 sequences x 5 modes x 4 lengths did
		// not finish within the thorough budget, so the third call is one of the three observers)
		steps = 3
	}
	for i := 0; i < steps; i++ {
		// (in a three-call sequence the third call is an observer — Read, Seek or Stat: what two arbitrary calls did to
		// the content and the cursor shows there, and in what Close leaves behind)
		c14Observe = i == 2
		c14Step(h, ref, "s"+string(rune('0'+i)))
	}
	c14Observe = false
	cerr := h.Close()
	vm.Assert("C14.close_ok", cerr == nil)
	if cerr != nil {
		return
	}
	// after close: a fresh open reads the reference's final bytes and Stat reports their length
	st, serr := v.FS.Stat("/f")
	vm.Assert("C14.stat_after_close", serr == nil)
	if serr == nil {
		vm.Assert("C14.size_after_close", st.Size() == int64(len(ref.data)))
		if st.Size() == int64(len(ref.data)) && len(ref.data) > 0 {
			h2, oerr := v.FS.Open("/f")
			vm.Assert("C14.reopen_ok", oerr == nil)
			if oerr == nil {
				buf := make([]byte, len(ref.data))
				n, _ := h2.Read(buf)
				vm.Assert("C14.content_after_close_count", n == len(ref.data))
				if n == len(ref.data) {
					for i := range buf {
						vm.Assert("C14.content_after_close_bytes", buf[i] == ref.data[i])
					}
				}
				h2.Close()
			}
		}
	}
	vm.Assert("C14.locks_free", v.Env.LocksFree())
}

// Harness_C14_read_seek_read: the sequence a media player or an archive reader performs on a read-only
// handle: read some bytes, seek (any whence, forwards or backwards), read again.
func Harness_C14_read_seek_read() {
	v := verifNewFS(config.PipeConfig{}, false, true)
	v.rootOnly()
	const l = 4
	content := make([]byte, l)
	for i := range content {
		content[i] = byte('p' + i)
	}
	v.Env.AddEntry("/f", tar.TypeReg, l, false, "")
	copy(v.Env.Tape.LastMember().Data, content)
	h, ref, ok := c14Open(v, content, 0)
	vm.Assert("C14.rsr_open_ok", ok)
	if !ok {
		return
	}
	step := func(tag string) {
		k := vm.Concretize(vm.Int(tag+".k", 1, 3))
		buf := make([]byte, k)
		start := ref.pos
		n, err := h.Read(buf)
		wn, weof, _ := ref.doRead(k)
		vm.Assert("C14.rsr_read_count", n == wn || (weof && n <= 0))
		vm.Assert("C14.rsr_read_error", err == nil || err == io.EOF)
		if n == wn {
			for i := 0; i < wn; i++ {
				vm.Assert("C14.rsr_read_bytes", buf[i] == ref.data[start+int64(i)])
			}
		}
	}
	step("r1")
	off := int64(vm.Int("off", -3, 4))
	whence := vm.Int("whence", 0, 2)
	got, err := h.Seek(off, whence)
	want, sok := ref.doSeek(off, whence)
	vm.Assert("C14.rsr_seek_success_like_reference", (err == nil) == sok)
	if !sok || err != nil {
		return
	}
	vm.Assert("C14.rsr_seek_offset", got == want)
	step("r2")
	h.Close()
}
