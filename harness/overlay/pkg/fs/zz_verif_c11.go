package fs

import (
	"archive/tar"
	"os"

	vm "github.com/pojntfx/stfs/internal/verifmodel"
	"github.com/pojntfx/stfs/pkg/config"
	"github.com/spf13/afero"
)

const c11HandleOps = 13

func c11Handle(h afero.File, op int) {
	buf := make([]byte, 1)
	switch op {
	case 0:
		h.Read(buf)
	case 1:
		h.Seek(1, 0)
	case 2:
		h.Write([]byte("x"))
	case 3:
		h.Truncate(1)
	case 4:
		h.Stat()
	case 5:
		h.Sync()
	case 6:
		h.Readdirnames(-1)
	case 7:
		h.Name()
	case 8:
		h.Close()
	case 9:
		h.ReadAt(buf, 1)
	case 10:
		h.WriteAt([]byte("z"), 1)
	case 11:
		h.WriteString("y")
	case 12:
		h.Readdir(-1)
	}
}

// Fields whose unsynchronised access is a listed (open) finding: "<finding id>:<field>@<API method>".
const c11KnownFields = "C11-restore-goroutine-outside-io-lock:IndexStore.rows@File).Read,C11-restore-goroutine-outside-io-lock:IndexStore.rows@File).Seek," +
	"C11-restore-goroutine-outside-io-lock:IndexStore.rows@File).ReadAt," +
	"C11-restore-goroutine-outside-io-lock:Drive.tape@File).Read,C11-restore-goroutine-outside-io-lock:Drive.tape@File).Seek," +
	"C11-restore-goroutine-outside-io-lock:Drive.tape@File).ReadAt," +
	"C11-restore-goroutine-outside-io-lock:MetadataPersister.root@File).Read,C11-restore-goroutine-outside-io-lock:MetadataPersister.rootIsEmptyString@File).Read," +
	"C11-restore-goroutine-outside-io-lock:MetadataPersister.root@File).ReadAt,C11-restore-goroutine-outside-io-lock:MetadataPersister.rootIsEmptyString@File).ReadAt," +
	"C11-restore-goroutine-outside-io-lock:MetadataPersister.root@File).Seek,C11-restore-goroutine-outside-io-lock:MetadataPersister.rootIsEmptyString@File).Seek"

// Harness_C11_handle_calls_are_serialised: two threads use one open handle; every pair of handle methods.
// No two conflicting accesses to the handle's state may be adjacent in any interleaving.
func Harness_C11_handle_calls_are_serialised() {
	v := c10Prestate()
	h, err := v.FS.OpenFile("/d/g", os.O_RDWR, 0)
	vm.Assert("C11.open_ok", err == nil)
	if err != nil {
		return
	}
	a := vm.Choice("a", c11HandleOps)
	b := vm.Choice("b", c11HandleOps)
	vm.ThreadBegin(1)
	c11Handle(h, a)
	vm.ThreadEnd()
	vm.ThreadBegin(2)
	c11Handle(h, b)
	vm.ThreadEnd()
	vm.RaceCheck(c11KnownFields)
}

const c11FSOps = 13

func c11FS(v *verifFS, op int, name string) {
	switch op {
	case 0:
		v.FS.Stat(name)
	case 1:
		v.FS.Mkdir(name, 0o755)
	case 2:
		h, err := v.FS.Create(name)
		if err == nil {
			h.Close()
		}
	case 3:
		v.FS.Remove(name)
	case 4:
		v.FS.Rename(name, "/renamed")
	case 5:
		v.FS.Chmod(name, 0o600)
	case 6:
		h, err := v.FS.Open(name)
		if err == nil {
			h.Readdir(-1)
			h.Close()
		}
	case 7:
		h, err := v.FS.Open(name)
		if err == nil {
			buf := make([]byte, 1)
			h.Read(buf)
			h.Close()
		}
	case 8:
		v.FS.Chown(name, 1, 2)
	case 9:
		v.FS.MkdirAll(name+"/sub", 0o755)
	case 10:
		v.FS.RemoveAll(name)
	case 11:
		v.FS.SymlinkIfPossible(name, "/link")
	case 12:
		h, err := v.FS.OpenFile(name, os.O_RDWR|os.O_CREATE, 0o644)
		if err == nil {
			h.Write([]byte("x"))
			h.Close()
		}
	}
}

var c11Names = []string{"/d", "/d/g", "/new"}

// Harness_C11_filesystem_calls_are_serialised: two threads use one filesystem instance (shared and disjoint paths).
func Harness_C11_filesystem_calls_are_serialised() {
	v := c10Prestate()
	// a freshly opened index: the root is not cached yet in one variant
	if vm.Bool("rootNotCached") {
		v.Env.P.VerifSetRoot("")
	}
	a, b := vm.Choice("a", c11FSOps), vm.Choice("b", c11FSOps)
	na, nb := c11Names[vm.Choice("na", len(c11Names))], c11Names[vm.Choice("nb", len(c11Names))]
	vm.ThreadBegin(1)
	c11FS(v, a, na)
	vm.ThreadEnd()
	vm.ThreadBegin(2)
	c11FS(v, b, nb)
	vm.ThreadEnd()
	vm.RaceCheck(c11KnownFields)
}

// Harness_C11_reader_does_not_keep_drive: after a call returns, no helper goroutine may be parked while it
// holds a lock another call needs (a partly consumed file keeps the drive locked: the next writer deadlocks).
func Harness_C11_reader_does_not_keep_drive() {
	v := verifNewFS(config.PipeConfig{}, false, true)
	v.rootOnly()
	v.Env.AddEntry("/big", tar.TypeReg, 3, false, "")
	h, err := v.FS.Open("/big")
	vm.Assert("C11.open_ok", err == nil)
	if err != nil {
		return
	}
	k := vm.Concretize(vm.Int("k", 1, 3))
	buf := make([]byte, k)
	n, _ := h.Read(buf)
	vm.Known("C11-partial-reader-keeps-drive-locked", k < 3)
	vm.Assert("C11.read_count", n == k)
	vm.Assert("C11.no_helper_parked_holding_locks", vm.PipesParkedWithLocks() == 0)
}

// ---- interleavings at lock boundaries ----

var c11LinNames = []string{"/d", "/d/x", "/f"}

func c11LinPrestate() *verifFS {
	v := verifNewFS(config.PipeConfig{}, false, true)
	v.rootOnly()
	v.Env.AddEntry("/d", tar.TypeDir, 0, false, "")
	v.Env.AddEntry("/f", tar.TypeReg, 0, false, "")
	return v
}

func c11LinCall(v *verifFS, op int, name string) error {
	switch op {
	case 0:
		return v.FS.Mkdir(name, 0o755)
	case 1:
		h, err := v.FS.Create(name)
		if err != nil {
			return err
		}
		return h.Close()
	case 2:
		return v.FS.Remove(name)
	case 3:
		return v.FS.RemoveAll(name)
	case 4:
		return v.FS.Rename(name, "/r")
	default:
		return v.FS.MkdirAll(name, 0o755)
	}
}

// c11LinOutcome: what two callers and a later observer can tell — which call succeeded and which names exist as what.
func c11LinOutcome(v *verifFS, ea, eb error) [7]int {
	var o [7]int
	if ea == nil {
		o[0] = 1
	}
	if eb == nil {
		o[1] = 1
	}
	for i, n := range []string{"/d", "/d/x", "/f", "/r", "/r/x"} {
		for _, r := range v.Env.P.VerifRows() {
			if r.Deleted != 1 && r.Name == n {
				o[2+i] = 1 + int(r.Typeflag)
			}
		}
	}
	return o
}

// Harness_C11_interleaving_at_lock_boundaries: call B is executed where a second caller waiting for the io lock would
// get to run — right after the first or the second release of the lock inside call A (calls that take the lock once
// release it when they are done). Whatever A and B are, the two results and the resulting tree are those of A then B
// or of B then A. This is a real interleaving (B's effects are visible to the rest of A), so it also covers schedules
// in which A's control flow differs from a run on its own.
func Harness_C11_interleaving_at_lock_boundaries() {
	opA, opB := vm.Choice("opA", 6), vm.Choice("opB", 6)
	nameA, nameB := c11LinNames[vm.Choice("nameA", len(c11LinNames))], c11LinNames[vm.Choice("nameB", len(c11LinNames))]
	skip := vm.Choice("releasesBeforeB", 2)

	v1 := c11LinPrestate()
	a1 := c11LinCall(v1, opA, nameA)
	b1 := c11LinCall(v1, opB, nameB)
	ab := c11LinOutcome(v1, a1, b1)

	v2 := c11LinPrestate()
	b2 := c11LinCall(v2, opB, nameB)
	a2 := c11LinCall(v2, opA, nameA)
	ba := c11LinOutcome(v2, a2, b2)

	v3 := c11LinPrestate()
	var b3 error
	ran := false
	vm.UnlockHookMutex, vm.UnlockHookSkip = &v3.FS.ioLock, skip
	vm.UnlockHook = func() {
		ran = true
		b3 = c11LinCall(v3, opB, nameB)
	}
	a3 := c11LinCall(v3, opA, nameA)
	vm.UnlockHook = nil
	if !ran {
		// A released the lock fewer times than that: B runs after it
		b3 = c11LinCall(v3, opB, nameB)
	}
	got := c11LinOutcome(v3, a3, b3)
	vm.Assert("C11.interleaved_outcome_is_a_sequential_one", got == ab || got == ba)
	vm.Assert("C11.interleaved_locks_free", v3.Env.LocksFree())
	vm.Cover("C11.b_ran_inside_a", ran && skip == 0)
}
