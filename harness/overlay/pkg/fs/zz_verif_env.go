package fs

import (
	"archive/tar"
	"os"

	golog "github.com/fclairamb/go-log"
	vm "github.com/pojntfx/stfs/internal/verifmodel"
	"github.com/pojntfx/stfs/pkg/cache"
	"github.com/pojntfx/stfs/pkg/config"
	"github.com/pojntfx/stfs/pkg/operations"
)

type verifLogger struct{}

func (verifLogger) Trace(string, ...interface{})       {}
func (verifLogger) Debug(string, ...interface{})       {}
func (verifLogger) Info(string, ...interface{})        {}
func (verifLogger) Warn(string, ...interface{})        {}
func (verifLogger) Error(string, ...interface{})       {}
func (verifLogger) Panic(string, ...interface{})       {}
func (l verifLogger) With(...interface{}) golog.Logger { return l }

// verifWriteCacheType selects the write cache the filesystem under test hands to its files: the in-memory one
// (mattetti/filebuffer wrapper, executed from source) or the file-backed one (an *os.File, modelled as a byte-array file).
var verifWriteCacheType = config.WriteCacheTypeMemory

type verifFS struct {
	Env  *operations.VerifEnv
	FS   *STFS
	Bufs int
}

// verifNewFS composes a real STFS over the ghost drive and the symbolic index, as examples/full does.
func verifNewFS(pipes config.PipeConfig, readOnly bool, withWriteBackend bool) *verifFS {
	return verifNewFSCrypto(pipes, config.CryptoConfig{}, config.CryptoConfig{}, readOnly, withWriteBackend)
}

// verifCrypto returns (read, write) crypto configurations with opaque keys of the right dynamic types.
func verifCrypto(pipes config.PipeConfig) (config.CryptoConfig, config.CryptoConfig) {
	var r, w config.CryptoConfig
	switch pipes.Encryption {
	case config.EncryptionFormatAgeKey:
		w.Recipient = vm.NewAgeRecipient()
		r.Identity = vm.NewAgeIdentity()
	case config.EncryptionFormatPGPKey:
		w.Recipient = vm.NewPGPRecipient()
		r.Identity = vm.NewPGPRecipient()
	}
	switch pipes.Signature {
	case config.SignatureFormatMinisignKey:
		w.Identity = vm.NewMinisignPrivateKey()
		r.Recipient = vm.NewMinisignPublicKey()
	}
	return r, w
}

func verifNewFSCrypto(pipes config.PipeConfig, readCrypto, writeCrypto config.CryptoConfig, readOnly bool, withWriteBackend bool) *verifFS {
	if pipes.RecordSize == 0 {
		pipes.RecordSize = 20
	}
	env := operations.VerifNewEnv(pipes, readCrypto, writeCrypto)
	v := &verifFS{Env: env}
	writeOps := env.WriteOps
	getBuf := func() (cache.WriteCache, func() error, error) {
		v.Bufs++
		return cache.NewCacheWrite("/ghost/cache", verifWriteCacheType)
	}
	if !withWriteBackend {
		// `stfs serve http` passes no write backend and no file buffer
		writeOps = nil
		getBuf = nil
	}
	v.FS = NewSTFS(env.ReadOps, writeOps, env.Metadata, config.CompressionLevelFastestKey, getBuf, readOnly, false, func(*config.Header) {}, verifLogger{})
	return v
}

// rootOnly puts the root directory into the pre-state and caches it, as Initialize would.
func (v *verifFS) rootOnly() {
	v.Env.AddEntry("/", tar.TypeDir, 0, false, "")
	v.Env.P.VerifSetRoot("/")
}

// errClass maps an error to the classes the properties talk about.
func errClass(err error) int {
	switch err {
	case nil:
		return 0
	case os.ErrNotExist:
		return 1
	case os.ErrExist:
		return 2
	case os.ErrPermission:
		return 3
	case config.ErrIsDirectory:
		return 4
	case config.ErrDirectoryNotEmpty:
		return 5
	case os.ErrInvalid:
		return 6
	case config.ErrIsFile:
		return 7
	}
	return 9
}

var _ = vm.Symbolic
