package fs

import (
	"archive/tar"
	"os"
	"time"

	vm "github.com/pojntfx/stfs/internal/verifmodel"
	"github.com/pojntfx/stfs/pkg/config"
)

var c10Names = []string{"/d", "/d/g", "/f", "/missing", "/d/new", "/missing/x"}

func c10Prestate() *verifFS { return c10PrestateWith(config.PipeConfig{}) }

func c10PrestateWith(pipes config.PipeConfig) *verifFS {
	v := verifNewFS(pipes, false, true)
	v.rootOnly()
	v.Env.AddEntry("/d", tar.TypeDir, 0, false, "")
	v.Env.AddEntry("/d/g", tar.TypeReg, 3, false, "")
	v.Env.AddEntry("/f", tar.TypeReg, 0, false, "")
	return v
}

// c10Call performs one filesystem call chosen by the solver; returns its error.
func c10Call(v *verifFS, op int, name, other string) error {
	f := v.FS
	switch op {
	case 0:
		return f.Mkdir(name, 0o755)
	case 1:
		return f.MkdirAll(name, 0o755)
	case 2:
		h, err := f.Create(name)
		if err != nil {
			return err
		}
		return h.Close()
	case 3:
		h, err := f.OpenFile(name, os.O_RDWR|os.O_CREATE, 0o644)
		if err != nil {
			return err
		}
		if _, err := h.Write([]byte("ab")); err != nil {
			h.Close()
			return err
		}
		return h.Close()
	case 4:
		return f.Remove(name)
	case 5:
		return f.RemoveAll(name)
	case 6:
		return f.Rename(name, other)
	case 7:
		return f.Chmod(name, 0o600)
	case 8:
		return f.Chown(name, 1, 2)
	case 9:
		return f.Chtimes(name, time.Time{}, time.Time{})
	case 10:
		_, err := f.Stat(name)
		return err
	case 11:
		h, err := f.Open(name)
		if err != nil {
			return err
		}
		_, err = h.Readdir(-1)
		h.Close()
		return err
	case 12:
		h, err := f.Open(name)
		if err != nil {
			return err
		}
		buf := make([]byte, 2)
		_, err = h.Read(buf)
		h.Close()
		return err
	case 13:
		return f.SymlinkIfPossible(name, other)
	case 14:
		h, err := f.OpenFile(name, os.O_RDWR, 0)
		if err != nil {
			return err
		}
		if err := h.Truncate(1); err != nil {
			h.Close()
			return err
		}
		return h.Close()
	case 15:
		// emptied through the handle: opened with O_TRUNC and closed without a write
		h, err := f.OpenFile(name, os.O_WRONLY|os.O_TRUNC, 0)
		if err != nil {
			return err
		}
		return h.Close()
	case 16, 17:
		// a handle whose read stream has been started (a seek, or a read and a seek back) and is then written to
		h, err := f.OpenFile(name, os.O_RDWR, 0)
		if err != nil {
			return err
		}
		if op == 17 {
			buf := make([]byte, 1)
			if _, err := h.Read(buf); err != nil {
				h.Close()
				return err
			}
		}
		if _, err := h.Seek(0, 0); err != nil {
			h.Close()
			return err
		}
		if _, err := h.Write([]byte("x")); err != nil {
			h.Close()
			return err
		}
		return h.Close()
	}
	return nil
}

const c10Ops = 18

// Harness_C10_call_returns_and_frees_drive: one call with at most one injected fault (drive open, stat,
// seek, read, write, close, truncate; every index-store statement; user lookup): the call returns,
// nothing panics (also not in helper goroutines), and every lock is free afterwards.
func Harness_C10_call_returns_and_frees_drive() {
	v := c10Prestate()
	op := vm.Choice("op", c10Ops)
	name := c10Names[vm.Choice("name", len(c10Names))]
	other := c10Names[vm.Choice("other", 2)+3]
	if vm.Bool("faulty") {
		vm.FaultBudget = 1
		if vm.Tier() == "thorough" {
			vm.FaultBudget = 2 // two faults in one call
		}
	}
	err := c10Call(v, op, name, other)
	vm.Known("C10-restore-goroutine-panics-on-error", op == 12 && vm.FaultsUsed > 0)
	vm.Assert("C10.all_locks_free_after_call", v.Env.LocksFree())
	// the drive must be usable by the next call: a fault-free probe call must not block
	vm.FaultBudget = 0
	_, perr := v.FS.Stat("/d")
	_ = perr
	perr = v.FS.Mkdir("/probe", 0o755)
	vm.Assert("C10.next_write_call_completes_and_frees", v.Env.LocksFree())
	vm.Cover("C10.fault_injected", vm.FaultsUsed > 0)
	vm.Cover("C10.call_fails", err != nil)
	vm.Cover("C10.call_succeeds", err == nil)
}

// Harness_C10_initialize_returns_and_frees_drive: opening an instance over an existing tape without an index (the
// rebuild on open), with at most one injected fault (drive, index store) or a tape whose last record is torn: the
// call returns, nothing panics, every lock is free afterwards and the next calls complete.
func Harness_C10_initialize_returns_and_frees_drive() {
	v := verifNewFS(config.PipeConfig{}, false, true)
	v.Env.AddTapeEntry("/", tar.TypeDir, 0)
	v.Env.AddTapeEntry("/d", tar.TypeDir, 0)
	last := v.Env.AddTapeEntry("/d/g", tar.TypeReg, 700)
	_ = last
	t := v.Env.Tape
	switch vm.Choice("tail", 3) {
	case 1: // the last record is cut inside its content
		lm := t.LastMember()
		t.CutAt(lm.Start + 512*lm.HBlocks + []int64{0, 100, 512, 699}[vm.Choice("cutAt", 4)])
	case 2: // ... or inside its header blocks
		lm := t.LastMember()
		t.CutAt(lm.Start + []int64{1, 512, 1024, 1535}[vm.Choice("cutAt", 4)])
	}
	if vm.Bool("faulty") {
		vm.FaultBudget = 1
	}
	// the tape holds at most 3 + 2 records and as many trailers by the end of this harness: no loop over the tape needs
	// more than 16 iterations, so running into that bound means a call that does not return
	vm.SetUnwind(16)
	vm.UnwindIsViolation("C10.call_returns")
	_, err := v.FS.Initialize("/", os.ModePerm)
	vm.Assert("C10.initialize_frees_all_locks", v.Env.LocksFree())
	vm.FaultBudget = 0
	// whatever Initialize answered, the instance must not be wedged: another Initialize, a lookup and a write return
	_, _ = v.FS.Initialize("/", os.ModePerm)
	_, _ = v.FS.Stat("/d")
	_ = v.FS.Mkdir("/probe", 0o755)
	vm.Assert("C10.calls_after_initialize_complete_and_free", v.Env.LocksFree())
	vm.Cover("C10.initialize_fails", err != nil)
	vm.Cover("C10.initialize_succeeds", err == nil)
}
