package fs

import (
	"archive/tar"
	"io"
	"os"
	"strings"
	"time"

	vm "github.com/pojntfx/stfs/internal/verifmodel"
	"github.com/pojntfx/stfs/pkg/config"
	"github.com/pojntfx/stfs/pkg/encryption"
	"github.com/pojntfx/stfs/pkg/inventory"
	"github.com/pojntfx/stfs/pkg/persisters"
	"github.com/pojntfx/stfs/pkg/recovery"
	"github.com/pojntfx/stfs/pkg/signature"
)

// c01Rebuild throws the index away and rebuilds it from the tape alone, the way Initialize does.
func c01Rebuild(v *verifFS) (*persisters.MetadataPersister, error) {
	r := persisters.VerifNewPersister()
	reader, err := v.Env.Backend.GetReader()
	if err != nil {
		v.Env.Backend.CloseReader()
		return nil, err
	}
	ops := v.Env.ReadOps
	err = recovery.Index(
		reader, nil, config.MetadataConfig{Metadata: r}, ops.GetPipes(), ops.GetCrypto(),
		0, 0, true, false, 0,
		func(hdr *tar.Header, i int) error {
			return encryption.DecryptHeader(hdr, ops.GetPipes().Encryption, ops.GetCrypto().Identity)
		},
		func(hdr *tar.Header, isRegular bool) error {
			return signature.VerifyHeader(hdr, isRegular, ops.GetPipes().Signature, ops.GetCrypto().Recipient)
		},
		nil,
	)
	if cerr := v.Env.Backend.CloseReader(); err == nil {
		err = cerr
	}
	return r, err
}

// c01Norm: the stored spelling of a name is not observable through the API (a live index keeps "/d/n/" where a rebuilt
// one stores "d/n"); the base name and the path it is found under are.
func c01Norm(name string) string { return strings.TrimSuffix(strings.TrimPrefix(name, "/"), "/") }

// c01SameView compares what the API shows for one path in the live and in the rebuilt index.
func c01SameView(l, r config.MetadataConfig, path string) bool {
	// the same path looked up as a symbolic link (Lstat / Readlink)
	ll, ell := inventory.Stat(l, path, true, nil)
	lr, elr := inventory.Stat(r, path, true, nil)
	if (ell == nil) != (elr == nil) {
		return false
	}
	if ell == nil && (c01Norm(ll.Name) != c01Norm(lr.Name) || c01Norm(ll.Linkname) != c01Norm(lr.Linkname) || ll.Typeflag != lr.Typeflag) {
		return false
	}
	hl, el := inventory.Stat(l, path, false, nil)
	hr, er := inventory.Stat(r, path, false, nil)
	if (el == nil) != (er == nil) {
		return false
	}
	if el != nil {
		return true
	}
	same := hl.Typeflag == hr.Typeflag && hl.Size == hr.Size && hl.Mode == hr.Mode && hl.Uid == hr.Uid && hl.Gid == hr.Gid &&
		hl.Linkname == hr.Linkname && hl.ModTime.Equal(hr.ModTime) && c01Norm(hl.Name) == c01Norm(hr.Name)
	if !same {
		return false
	}
	// the name the API shows for the entry (FileInfo.Name of Stat and of an open handle)
	if NewFileInfoFromTarHeader(hl, verifLogger{}).Name() != NewFileInfoFromTarHeader(hr, verifLogger{}).Name() {
		return false
	}
	if hl.Typeflag == tar.TypeDir {
		ll, e1 := inventory.List(l, path, -1, nil)
		lr, e2 := inventory.List(r, path, -1, nil)
		if (e1 == nil) != (e2 == nil) || len(ll) != len(lr) {
			return false
		}
		for _, a := range ll {
			found := false
			for _, b := range lr {
				if c01Norm(a.Name) == c01Norm(b.Name) && a.Typeflag == b.Typeflag && a.Size == b.Size {
					found = true
				}
			}
			if !found {
				return false
			}
		}
	}
	return true
}

var c01Parents = []string{"", "/d", "/missing"}

// Harness_C01_rebuild_equals_live: after one call from a well-formed state (tape and index consistent),
// an index rebuilt from the tape alone shows the same tree as the live one, with the same positions.
func Harness_C01_rebuild_equals_live() {
	v := verifNewFS(config.PipeConfig{}, false, true)
	v.rootOnly()
	v.Env.AddEntry("/d", tar.TypeDir, 0, false, "")
	v.Env.AddEntry("/d/g", tar.TypeReg, 3, false, "")
	v.Env.AddEntry("/f", tar.TypeReg, 0, false, "")
	if vm.Bool("tombstone") {
		v.Env.AddEntry("/t", tar.TypeReg, 0, true, "")
	}
	comp := persisters.VerifComponent("N", 1, "gtx")
	name := c01Parents[vm.Choice("parent", len(c01Parents))] + "/" + comp
	var err error
	op := vm.Choice("op", 10)
	switch op {
	case 0:
		err = v.FS.Mkdir(name, 0o750)
	case 1:
		h, e := v.FS.Create(name)
		err = e
		if e == nil {
			err = h.Close()
		}
	case 2:
		h, e := v.FS.OpenFile(name, os.O_RDWR|os.O_CREATE, 0o640)
		err = e
		if e == nil {
			_, err = h.Write([]byte("xy"))
			if cerr := h.Close(); err == nil {
				err = cerr
			}
		}
	case 3:
		err = v.FS.Remove(name)
	case 4:
		err = v.FS.RemoveAll(name)
	case 5:
		vm.Known("C01-rename-onto-used-name", name == "/t" || name == "/f" || name == "/d/g")
		err = v.FS.Rename("/f", name)
	case 6:
		err = v.FS.Rename("/d", name)
	case 7:
		err = v.FS.Chmod(name, 0o600)
	case 8:
		err = v.FS.Chown(name, 7, 8)
	case 9:
		// the target may be spelled with a trailing slash, a "." segment or a doubled slash
		err = v.FS.SymlinkIfPossible([]string{"/d/g", "/d/", "/d/./g", "/d//g"}[vm.Choice("linkTarget", 4)], name)
		if err == nil && vm.Bool("thenRemoveTheLink") {
			// the link is removed again: the tape now holds a DELETE record that names the link path
			vm.Assert("C01.remove_link_ok", v.FS.Remove(name) == nil)
		}
	}
	if vm.Tier() == "thorough" {
		// a history of two calls: the second one on a fixed set of names that interact with the first
		switch vm.Choice("op2", 6) {
		case 0:
			v.FS.Mkdir("/d/x", 0o755)
		case 1:
			v.FS.Rename("/d/g", "/f")
		case 2:
			v.FS.RemoveAll("/d")
		case 3:
			v.FS.Chmod("/f", 0o640)
		case 4:
			v.FS.Rename("/d", "/t")
		case 5:
			h2, e2 := v.FS.Create("/t")
			if e2 == nil {
				h2.Write([]byte("q"))
				h2.Close()
			}
		}
	}
	r, rerr := c01Rebuild(v)
	vm.Assert("C01.rebuild_succeeds", rerr == nil)
	if rerr != nil {
		return
	}
	l := v.Env.Metadata
	rm := config.MetadataConfig{Metadata: r}
	universe := []string{"/", "/d", "/d/g", "/f", "/t", name, "/d/" + comp, "/" + comp + "/g", "/d/x", "/t/g"}
	for _, u := range universe {
		vm.Assert("C01.same_view_after_rebuild", c01SameView(l, rm, u))
	}
	// same content positions for every live regular entry
	for _, a := range v.Env.P.VerifRows() {
		if a.Deleted == 1 || a.Typeflag != int64(tar.TypeReg) {
			continue
		}
		for _, b := range r.VerifRows() {
			if b.Deleted != 1 && c01Norm(b.Name) == c01Norm(a.Name) && c01Norm(b.Linkname) == c01Norm(a.Linkname) {
				vm.Assert("C01.same_content_position_after_rebuild", a.Record == b.Record && a.Block == b.Block)
			}
		}
	}
	vm.Assert("C01.locks_free", v.Env.LocksFree())
	vm.Cover("C01.call_succeeded", err == nil)
	vm.Cover("C01.call_failed", err != nil)
}

// ---- batched archive-level calls with caller-supplied file information ----

type c01Info struct {
	name string
	size int64
	mode os.FileMode
}

func (i c01Info) Name() string       { return i.name }
func (i c01Info) Size() int64        { return i.size }
func (i c01Info) Mode() os.FileMode  { return i.mode }
func (i c01Info) ModTime() time.Time { return time.Time{} }
func (i c01Info) IsDir() bool        { return i.mode.IsDir() }
func (i c01Info) Sys() interface{}   { return nil }

type c01Src struct {
	data []byte
	pos  int
}

func (s *c01Src) Read(p []byte) (int, error) {
	if s.pos >= len(s.data) {
		return 0, io.EOF
	}
	n := copy(p, s.data[s.pos:])
	s.pos += n
	return n, nil
}
func (s *c01Src) Seek(off int64, whence int) (int64, error) {
	if whence == io.SeekStart {
		s.pos = int(off)
	}
	return int64(s.pos), nil
}
func (s *c01Src) Close() error { return nil }

// Harness_C01_archive_level_calls: Operations.Archive / Update with file information that does not come
// from the index (as `stfs operation archive|update` passes it from os.Stat), batched with one or two
// members; afterwards a rebuilt index shows what the live one shows.
func Harness_C01_archive_level_calls() {
	pipes := config.PipeConfig{}
	largeRecords := vm.Bool("recordSize1024")
	if largeRecords {
		pipes.RecordSize = 1024
	}
	v := verifNewFS(pipes, false, true)
	v.rootOnly()
	v.Env.AddEntry("/d", tar.TypeDir, 0, false, "")
	v.Env.AddEntry("/d/g", tar.TypeReg, 3, false, "")
	if largeRecords {
		// records of more than 512 blocks: an entry late in record 0 (block > 512) and the newest one early in record 1
		v.Env.AddEntry("/big1", tar.TypeReg, 310000, false, "")
		v.Env.AddEntry("/big2", tar.TypeReg, 250000, false, "")
		v.Env.AddEntry("/late", tar.TypeReg, 0, false, "")
	}
	size := vm.Concretize(vm.Int("size", 0, 3))
	content := make([]byte, size)
	for i := range content {
		content[i] = vm.Byte("c", "xy")
	}
	members := []config.FileConfig{}
	mk := func(path string, sz int) config.FileConfig {
		data := content[:sz]
		return config.FileConfig{
			GetFile: func() (io.ReadSeekCloser, error) { return &c01Src{data: data}, nil },
			Info:    c01Info{name: path, size: int64(sz), mode: 0o640},
			Path:    path,
		}
	}
	kind := vm.Choice("call", 5)
	switch kind {
	case 4: // archive of a directory the way tar names it (trailing slash), then a metadata change through the filesystem
		members = append(members, config.FileConfig{
			GetFile: func() (io.ReadSeekCloser, error) { return &c01Src{}, nil },
			Info:    c01Info{name: "n", size: 0, mode: os.ModeDir | 0o750},
			Path:    "/d/n/",
		})
	case 0, 1: // update of an existing file: content (replace) or metadata only
		members = append(members, mk("/d/g", size))
	case 2: // archive of a new file
		members = append(members, mk("/d/n", size))
	case 3: // batched archive: two members in one call
		members = append(members, mk("/d/n", size), mk("/d/m", 1%(size+1)))
	}
	i := 0
	getSrc := func() (config.FileConfig, error) {
		if i >= len(members) {
			return config.FileConfig{}, io.EOF
		}
		i++
		return members[i-1], nil
	}
	var err error
	switch kind {
	case 0:
		_, err = v.Env.WriteOps.Update(getSrc, config.CompressionLevelFastestKey, true, false)
	case 1:
		_, err = v.Env.WriteOps.Update(getSrc, config.CompressionLevelFastestKey, false, false)
	default:
		_, err = v.Env.WriteOps.Archive(getSrc, config.CompressionLevelFastestKey, false, false)
	}
	vm.Assert("C01.archive_level_call_ok", err == nil)
	if kind == 4 && err == nil {
		switch vm.Choice("then", 3) {
		case 0:
			err = v.FS.Chmod("/d/n", 0o700)
		case 1:
			err = v.FS.Chown("/d/n", 5, 6)
		case 2:
			err = v.FS.Mkdir("/d/n/sub", 0o755)
		}
		vm.Assert("C01.archive_level_followup_ok", err == nil)
		// the running instance keeps working: the next call finds the end of the tape
		vm.Assert("C01.archive_level_next_write_ok", v.FS.Mkdir("/d/after", 0o755) == nil)
	}
	r, rerr := c01Rebuild(v)
	vm.Assert("C01.archive_level_rebuild_succeeds", rerr == nil)
	if rerr != nil {
		return
	}
	rm := config.MetadataConfig{Metadata: r}
	for _, u := range []string{"/", "/d", "/d/g", "/d/n", "/d/m", "/d/n/sub", "/d/after"} {
		vm.Assert("C01.archive_level_same_view_after_rebuild", c01SameView(v.Env.Metadata, rm, u))
	}
	for _, a := range v.Env.P.VerifRows() {
		if a.Deleted == 1 || a.Typeflag != int64(tar.TypeReg) {
			continue
		}
		for _, b := range r.VerifRows() {
			if b.Deleted != 1 && c01Norm(b.Name) == c01Norm(a.Name) && c01Norm(b.Linkname) == c01Norm(a.Linkname) {
				vm.Assert("C01.archive_level_same_position_after_rebuild", a.Record == b.Record && a.Block == b.Block)
			}
		}
	}
	vm.Assert("C01.archive_level_locks_free", v.Env.LocksFree())
}

// Harness_C01_protected_history_rebuilds: with signatures and/or encryption on, a short history with one record of
// every kind the filesystem writes (directory, file with content, metadata update, move of a file or of a directory,
// removal) is rebuilt from the tape with the callbacks Initialize uses: the rebuild succeeds and shows the same tree.
func Harness_C01_protected_history_rebuilds() {
	pipes := config.PipeConfig{
		Encryption: []string{config.NoneKey, config.EncryptionFormatAgeKey}[vm.Choice("encryption", 2)],
		Signature:  []string{config.NoneKey, config.SignatureFormatMinisignKey}[vm.Choice("signature", 2)],
	}
	rc, wc := verifCrypto(pipes)
	v := verifNewFSCrypto(pipes, rc, wc, false, true)
	v.Env.Tape.Exists = false
	_, ierr := v.FS.Initialize("/", os.ModePerm)
	vm.Assert("C01.protected_initialize_ok", ierr == nil)
	if ierr != nil {
		return
	}
	ok := v.FS.Mkdir("/d", 0o750) == nil
	h, cerr := v.FS.Create("/d/f")
	if cerr == nil {
		h.Write([]byte("xy"))
		cerr = h.Close()
	}
	ok = ok && cerr == nil
	switch vm.Choice("then", 4) {
	case 0:
		ok = ok && v.FS.Rename("/d/f", "/d/g") == nil
	case 1:
		ok = ok && v.FS.Rename("/d", "/e") == nil
	case 2:
		ok = ok && v.FS.Chmod("/d/f", 0o600) == nil
	case 3:
		ok = ok && v.FS.Remove("/d/f") == nil
	}
	vm.Assert("C01.protected_calls_ok", ok)
	if !ok {
		return
	}
	r, rerr := c01Rebuild(v)
	vm.Assert("C01.protected_rebuild_succeeds", rerr == nil)
	if rerr != nil {
		return
	}
	l := v.Env.Metadata
	rm := config.MetadataConfig{Metadata: r}
	for _, u := range []string{"/", "/d", "/d/f", "/d/g", "/e", "/e/f"} {
		vm.Assert("C01.protected_same_view_after_rebuild", c01SameView(l, rm, u))
	}
	vm.Assert("C01.protected_locks_free", v.Env.LocksFree())
}
