package fs

import (
	"archive/tar"
	"io"
	"io/fs"
	"os"
	"strings"
	"time"

	vm "github.com/pojntfx/stfs/internal/verifmodel"
	"github.com/pojntfx/stfs/pkg/config"
)

var c09Enc = []string{config.EncryptionFormatAgeKey, config.EncryptionFormatPGPKey}
var c09Sig = []string{config.NoneKey, config.SignatureFormatMinisignKey}

// c09IsWrapper: the header handed to the tar writer reveals nothing but the record size.
func c09IsWrapper(h *tar.Header) bool {
	if h.Name != "" || h.Linkname != "" || h.Uname != "" || h.Gname != "" || h.Uid != 0 || h.Gid != 0 || h.Mode != 0 ||
		h.Devmajor != 0 || h.Devminor != 0 || !h.ModTime.IsZero() || !h.AccessTime.IsZero() || !h.ChangeTime.IsZero() || h.Typeflag != 0 {
		return false
	}
	if h.Format != tar.FormatPAX || len(h.PAXRecords) != 1 {
		return false
	}
	v, ok := h.PAXRecords["STFS.EmbeddedHeader"]
	// the only record is the base64 text of a ciphertext produced by the encryption primitive
	return ok && strings.HasPrefix(v, "\x00B64#")
}

// Harness_C09_tape_reveals_only_sizes: with encryption on, every header that reaches the tar writer is the
// fixed wrapper around an encrypted embedded header, and every content byte reaches the tape through the
// encrypting writer; with a different key neither a rebuild nor a read succeeds.
func Harness_C09_tape_reveals_only_sizes() {
	pipes := config.PipeConfig{Encryption: c09Enc[vm.Choice("encryption", 2)], Signature: c09Sig[vm.Choice("signature", 2)]}
	rc, wc := verifCrypto(pipes)
	v := verifNewFSCrypto(pipes, rc, wc, false, true)
	v.Env.Tape.Exists = false
	_, ierr := v.FS.Initialize("/", os.ModePerm)
	vm.Assert("C09.initialize_ok", ierr == nil)
	if ierr != nil {
		return
	}
	// one call of each kind of record: directory, file with content, metadata update, move, symlink, delete
	var err error
	switch vm.Choice("op", 13) {
	case 12:
		// a batched archive-level call, as `stfs operation archive` issues it: a directory and a file with content
		members := []config.FileConfig{
			{GetFile: func() (io.ReadSeekCloser, error) { return &c01Src{}, nil }, Info: c01Info{name: "secretdir", mode: os.ModeDir | 0o750}, Path: "/secretdir"},
			{GetFile: func() (io.ReadSeekCloser, error) { return &c01Src{data: []byte("topsecret")}, nil }, Info: c01Info{name: "secretfile", size: 9, mode: 0o600}, Path: "/secretdir/secretfile"},
		}
		i := 0
		_, err = v.Env.WriteOps.Archive(func() (config.FileConfig, error) {
			if i >= len(members) {
				return config.FileConfig{}, io.EOF
			}
			i++
			return members[i-1], nil
		}, config.CompressionLevelFastestKey, false, false)
	case 6:
		err = v.FS.Mkdir("/secretdir", 0o750)
		if err == nil {
			err = v.FS.Chown("/secretdir", 1234, 5678)
		}
	case 7:
		err = v.FS.Mkdir("/secretdir", 0o750)
		if err == nil {
			err = v.FS.Chtimes("/secretdir", time.Unix(1234567, 0), time.Unix(7654321, 0))
		}
	case 8:
		err = v.FS.MkdirAll("/secretdir/nested/deeper", 0o750)
	case 9:
		err = v.FS.MkdirAll("/secretdir/nested", 0o750)
		if err == nil {
			err = v.FS.RemoveAll("/secretdir")
		}
	case 10:
		// content replaced through a second handle, then emptied
		h, e := v.FS.Create("/secretfile")
		err = e
		if e == nil {
			_, err = h.Write([]byte("topsecret"))
			if cerr := h.Close(); err == nil {
				err = cerr
			}
		}
		if err == nil {
			h2, e2 := v.FS.OpenFile("/secretfile", os.O_RDWR, 0)
			err = e2
			if e2 == nil {
				_, err = h2.WriteAt([]byte("X"), 3)
				if terr := h2.Truncate(5); err == nil {
					err = terr
				}
				if cerr := h2.Close(); err == nil {
					err = cerr
				}
			}
		}
	case 11:
		// a file with content is renamed into a directory
		err = v.FS.Mkdir("/secretdir", 0o750)
		if err == nil {
			h, e := v.FS.Create("/secretfile")
			err = e
			if e == nil {
				_, err = h.Write([]byte("topsecret"))
				if cerr := h.Close(); err == nil {
					err = cerr
				}
			}
		}
		if err == nil {
			err = v.FS.Rename("/secretfile", "/secretdir/moved")
		}
	case 0:
		err = v.FS.Mkdir("/secretdir", 0o750)
	case 1:
		h, e := v.FS.Create("/secretfile")
		err = e
		if e == nil {
			_, err = h.Write([]byte("topsecret"))
			if cerr := h.Close(); err == nil {
				err = cerr
			}
		}
	case 2:
		err = v.FS.Mkdir("/secretdir", 0o750)
		if err == nil {
			err = v.FS.Chmod("/secretdir", 0o700)
		}
	case 3:
		err = v.FS.Mkdir("/secretdir", 0o750)
		if err == nil {
			err = v.FS.Rename("/secretdir", "/renamed")
		}
	case 4:
		err = v.FS.Mkdir("/secretdir", 0o750)
		if err == nil {
			err = v.FS.SymlinkIfPossible("/secretdir", "/secretlink")
		}
	case 5:
		err = v.FS.Mkdir("/secretdir", 0o750)
		if err == nil {
			err = v.FS.Remove("/secretdir")
		}
	}
	vm.Assert("C09.calls_succeed", err == nil)
	vm.Assert("C09.some_header_written", len(vm.HeadersWritten) >= 2)
	for _, w := range vm.HeadersWritten {
		h := w.Hdr
		vm.Assert("C09.every_header_on_tape_is_an_encrypted_wrapper", c09IsWrapper(&h))
	}
	vm.Assert("C09.content_reaches_tape_only_through_encryption", vm.PlainDataWrites == 0)
	for _, c := range vm.Ciphers {
		vm.Assert("C09.every_encryptor_was_closed", c.Closed)
	}
	// the right key rebuilds the index; a different key does not (no fall-back to the outer header)
	_, rerr := c01Rebuild(v)
	vm.Assert("C09.rebuild_with_right_key", rerr == nil)
	vm.ForeignKey = true
	_, ferr := c01Rebuild(v)
	vm.Assert("C09.rebuild_with_other_key_fails", ferr != nil)
	vm.ForeignKey = false
	vm.Assert("C09.locks_free", v.Env.LocksFree())
}

// Harness_C09_read_with_other_key_fails: restoring content with a different private key is an error.
func Harness_C09_read_with_other_key_fails() {
	pipes := config.PipeConfig{Encryption: c09Enc[vm.Choice("encryption", 2)]}
	rc, wc := verifCrypto(pipes)
	v := verifNewFSCrypto(pipes, rc, wc, false, true)
	v.Env.Tape.Exists = false
	_, ierr := v.FS.Initialize("/", os.ModePerm)
	vm.Assert("C09.initialize_ok", ierr == nil)
	h, e := v.FS.Create("/secretfile")
	vm.Assert("C09.create_ok", e == nil)
	if e != nil {
		return
	}
	h.Write([]byte("topsecret"))
	vm.Assert("C09.close_ok", h.Close() == nil)
	r, oerr := v.FS.Open("/secretfile")
	vm.Assert("C09.open_ok", oerr == nil)
	buf := make([]byte, 9)
	n, rerr := r.Read(buf)
	vm.Assert("C09.right_key_reads_content", (rerr == nil || n == 9) && string(buf[:n]) == "topsecret")
	r.Close()
	vm.ForeignKey = true
	r2, _ := v.FS.Open("/secretfile")
	buf2 := make([]byte, 9)
	n2, rerr2 := r2.Read(buf2)
	vm.Assert("C09.other_key_read_fails", rerr2 != nil && n2 <= 0)
	r2.Close()
	vm.ForeignKey = false
	// restoring through the archive interface: a tree of directories only, with the right key and with another one
	vm.Assert("C09.mkdir_ok", v.FS.MkdirAll("/secretdir/nested", 0o750) == nil)
	made := 0
	restore := func() error {
		return v.Env.ReadOps.Restore(
			func(path string, mode fs.FileMode) (io.WriteCloser, error) { return &c03Sink{}, nil },
			func(path string, mode fs.FileMode) error { made++; return nil },
			"/secretdir", "/out", true,
		)
	}
	vm.Assert("C09.right_key_restores_directories", restore() == nil && made == 2)
	made = 0
	vm.ForeignKey = true
	oerr2 := restore()
	vm.ForeignKey = false
	vm.Assert("C09.other_key_restores_nothing", oerr2 != nil && made == 0)
}

// Harness_C08_initialize_gate: with signatures on, an index rebuild in Initialize never indexes a record
// that did not pass header verification (unsigned records appended by a plain tar writer, or a wrapper whose
// signature the primitive rejects).
func Harness_C08_initialize_gate() {
	pipes := config.PipeConfig{Signature: config.SignatureFormatMinisignKey}
	rc, wc := verifCrypto(pipes)
	v := verifNewFSCrypto(pipes, rc, wc, vm.Bool("readOnly"), true)
	t := v.Env.Tape
	// a legitimately written root (signed in this run) ...
	legit := verifNewFSCrypto(pipes, rc, wc, false, true)
	legit.Env.Tape.Exists = false
	_, lerr := legit.FS.Initialize("/", os.ModePerm)
	vm.Assert("C08.setup_signed_root", lerr == nil && len(legit.Env.Tape.Segs) >= 1)
	// ... and a legitimately written, signed directory
	vm.Assert("C08.setup_signed_directory", legit.FS.Mkdir("/docs", 0o755) == nil)
	var signedDocs *vm.Seg
	for _, s := range legit.Env.Tape.Segs {
		if s.Kind == vm.SegMember {
			t.AddMember(s.Hdr, s.HBlocks, s.Size, nil)
			signedDocs = s
		}
	}
	t.AddTrailer()
	// ... followed by a record the key holder never signed
	forgery := vm.Choice("forgery", 3)
	switch forgery {
	case 2: // a pax global extended header carrying STFS records, in front of a byte copy of the signed record
		t.AddMember(&tar.Header{Typeflag: tar.TypeXGlobalHeader, Name: "pax_global_header", Format: tar.FormatPAX, PAXRecords: map[string]string{
			"STFS.Version": "1",
			"STFS.Action":  "DELETE",
		}}, 2, 0, nil)
		t.AddMember(signedDocs.Hdr, signedDocs.HBlocks, signedDocs.Size, nil)
	case 0: // plain unsigned record
		t.AddMember(&tar.Header{Typeflag: tar.TypeReg, Name: "/forged", Format: tar.FormatUSTAR}, 1, 0, nil)
	case 1: // wrapper with an attacker-made signature text
		t.AddMember(&tar.Header{Typeflag: tar.TypeReg, Format: tar.FormatPAX, PAXRecords: map[string]string{
			"STFS.EmbeddedHeader": "{\"Name\":\"/forged\"}",
			"STFS.Signature":      vm.String("sig", 0, 1, "A!"),
		}}, 3, 0, nil)
	}
	t.AddTrailer()
	accepted := false
	_, _ = v.FS.Initialize("/", os.ModePerm)
	for _, ev := range vm.VerifyEvents {
		if ev.Result && ev.Message == "{\"Name\":\"/forged\"}" {
			accepted = true
		}
	}
	docs := false
	for _, r := range v.Env.P.VerifRows() {
		vm.Assert("C08.initialize_indexes_only_verified_records", !strings.Contains(r.Name, "forged") || accepted)
		if strings.Trim(r.Name, "/") == "docs" && r.Deleted != 1 {
			docs = true
		}
	}
	// what was signed is a directory being made: no unsigned record can turn that into anything else
	vm.Assert("C08.signed_records_mean_what_was_signed", docs)
}
