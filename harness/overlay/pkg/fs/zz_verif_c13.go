package fs

import (
	"archive/tar"
	"os"
	"strings"

	models "github.com/pojntfx/stfs/internal/db/sqlite/models/metadata"
	vm "github.com/pojntfx/stfs/internal/verifmodel"
	"github.com/pojntfx/stfs/pkg/config"
	"github.com/pojntfx/stfs/pkg/persisters"
)

func c13Parent(name string) string {
	i := strings.LastIndex(name, "/")
	if i <= 0 {
		return "/"
	}
	return name[:i]
}

// c13WellFormed: every live non-root row has a live parent row that is a directory.
func c13Abs(name string) string { return "/" + strings.TrimPrefix(name, "/") }

func c13WellFormed(rows []*models.Header) bool {
	ok := true
	for _, r := range rows {
		if r.Deleted == 1 || c13Abs(r.Name) == "/" || r.Linkname != "" {
			continue
		}
		par := c13Parent(c13Abs(r.Name))
		found := false
		for _, q := range rows {
			if q.Deleted != 1 && q.Linkname == "" && c13Abs(q.Name) == par && q.Typeflag == int64(tar.TypeDir) {
				found = true
			}
		}
		if !found {
			ok = false
		}
	}
	return ok
}

var c13Parents = []string{"", "/d", "/f", "/missing", "/d/sub", "/d/s", "/l"}

// Harness_C13_tree_stays_well_formed: from a well-formed tree, every creating or moving call leaves a
// well-formed tree (Inv is inductive), whatever it returns.
func Harness_C13_tree_stays_well_formed() {
	v := verifNewFS(config.PipeConfig{}, false, true)
	if vm.Bool("rebuiltIndex") {
		// opened over an index rebuilt from the tape: names are stored relative to the root ""
		v.Env.RelNames = true
		v.Env.AddEntry("/", tar.TypeDir, 0, false, "")
		v.Env.P.VerifSetRoot("")
	} else {
		v.rootOnly()
	}
	v.Env.AddEntry("/d", tar.TypeDir, 0, false, "")
	if vm.Bool("olderTombstoneInDirectory") {
		// an entry of /d that was removed earlier: its row is older than the rows of /d's live entries
		v.Env.AddEntry("/d/0", tar.TypeReg, 0, true, "")
	}
	v.Env.AddEntry("/f", tar.TypeReg, 0, false, "")
	v.Env.AddEntry("/d/g", tar.TypeReg, 0, false, "")
	v.Env.AddEntry("/d/s", tar.TypeDir, 0, false, "")
	v.Env.AddEntry("/d", tar.TypeSymlink, 0, false, "/l") // a symbolic link at /l to the directory /d
	switch vm.Choice("tombstones", 3) {
	case 1:
		v.Env.AddEntry("/t", tar.TypeDir, 0, true, "")
	case 2:
		// what "mkdir /t; create /t/g; remove /t/g; rename /t /c; remove /c" leaves behind: the tombstone of an entry
		// under a name that does not exist any more
		v.Env.AddEntry("/t/g", tar.TypeReg, 0, true, "")
	}
	vm.Assert("C13.prestate_well_formed", c13WellFormed(v.Env.P.VerifRows()))

	pi := vm.Choice("parent", len(c13Parents))
	comp := persisters.VerifComponent("N", 1, "abt")
	name := c13Parents[pi] + "/" + comp
	// equivalent spellings of the same path
	switch vm.Choice("spelling", 3) {
	case 1:
		name = name[1:]
	case 2:
		name = "." + name
	}
	var err error
	op := vm.Choice("op", 8)
	switch op {
	case 6:
		// a directory goes with everything below it
		err = v.FS.RemoveAll("/d")
	case 7:
		err = v.FS.Remove("/d/s")
	case 0:
		err = v.FS.Mkdir(name, 0o755)
	case 1:
		err = v.FS.MkdirAll(name, 0o755)
	case 2:
		var h interface{ Close() error }
		h, err = v.FS.Create(name)
		if err == nil {
			err = h.Close()
		}
	case 3:
		var h interface{ Close() error }
		h, err = v.FS.OpenFile(name, os.O_CREATE|os.O_WRONLY, 0o644)
		if err == nil {
			err = h.Close()
		}
	case 4:
		err = v.FS.Rename("/d/g", name)
	case 5:
		err = v.FS.Rename("/d", name)
	}
	vm.Known("C13-parent-not-a-directory", pi == 2)
	vm.Known("C13-mkdirall-creates-only-leaf", op == 1 && (pi == 3 || pi == 4))
	rows := v.Env.P.VerifRows()
	vm.Assert("C13.tree_well_formed_after_call", c13WellFormed(rows))
	if op == 1 && err == nil {
		// MkdirAll: the whole chain exists afterwards
		found := false
		for _, r := range rows {
			if r.Deleted != 1 && c13Abs(r.Name) == c13Parents[pi]+"/"+comp && r.Typeflag == int64(tar.TypeDir) {
				found = true
			}
		}
		vm.Assert("C13.mkdirall_creates_target", found)
	}
	vm.Assert("C13.locks_free_after_call", v.Env.LocksFree())
	vm.Cover("C13.some_call_succeeds", err == nil)
	vm.Cover("C13.some_call_fails", err != nil)
}

// Harness_C13_readdir_agrees_with_stat: every name Readdir lists can be stat-ed with the same kind and
// size, and Readdir lists exactly the live children.
func Harness_C13_readdir_agrees_with_stat() {
	v := verifNewFS(config.PipeConfig{}, false, true)
	v.rootOnly()
	a := persisters.VerifComponent("A", 1, "ab_%A")
	b := persisters.VerifComponent("B", 1, "ab_%A")
	v.Env.AddEntry("/"+a, tar.TypeDir, 0, false, "")
	v.Env.AddEntry("/"+a+"/"+b, tar.TypeReg, 3, false, "")
	c := persisters.VerifComponent("C", 1, "ab_%A")
	vm.Assume(c != a)
	v.Env.AddEntry("/"+c, tar.TypeReg, 0, false, "")
	dir := "/"
	if vm.Bool("listSub") {
		dir = "/" + a
	}
	h, err := v.FS.Open(dir)
	vm.Assert("C13.open_dir_ok", err == nil)
	if err != nil {
		return
	}
	infos, err := h.Readdir(-1)
	vm.Assert("C13.readdir_ok", err == nil)
	want := 2
	if dir != "/" {
		want = 1
	}
	vm.Assert("C13.readdir_count", len(infos) == want)
	for _, fi := range infos {
		p := dir + "/" + fi.Name()
		if dir == "/" {
			p = "/" + fi.Name()
		}
		st, serr := v.FS.Stat(p)
		vm.Assert("C13.listed_name_can_be_stated", serr == nil)
		if serr == nil {
			vm.Assert("C13.listed_kind_and_size_match", st.IsDir() == fi.IsDir() && st.Size() == fi.Size())
		}
	}
	h.Close()
	vm.Assert("C13.readdir_locks_free", v.Env.LocksFree())
}

// Harness_C13_handle_outlives_its_entry: a handle opened for writing is still open while its entry is removed (alone,
// with its directory, or replaced by a directory of the same name) or its directory is renamed; the handle is written
// to before or after that and then closed. The tree stays well formed, a removed entry stays removed and a directory
// that took the name stays a directory.
func Harness_C13_handle_outlives_its_entry() {
	v := verifNewFS(config.PipeConfig{}, false, true)
	v.rootOnly()
	v.Env.AddEntry("/d", tar.TypeDir, 0, false, "")
	v.Env.AddEntry("/d/g", tar.TypeReg, 2, false, "")
	copy(v.Env.Tape.LastMember().Data, []byte("pq"))
	h, err := v.FS.OpenFile("/d/g", os.O_RDWR, 0)
	vm.Assert("C13.open_for_writing_ok", err == nil)
	if err != nil {
		return
	}
	writeFirst := vm.Bool("writeBeforeTheEntryGoes")
	if writeFirst {
		_, werr := h.Write([]byte("X"))
		vm.Assert("C13.write_ok", werr == nil)
	}
	ev := vm.Choice("event", 4)
	var eerr error
	switch ev {
	case 0:
		eerr = v.FS.Remove("/d/g")
	case 1:
		eerr = v.FS.RemoveAll("/d")
	case 2:
		eerr = v.FS.Remove("/d/g")
		if eerr == nil {
			eerr = v.FS.Mkdir("/d/g", 0o755)
		}
	case 3:
		eerr = v.FS.Rename("/d", "/e")
	}
	vm.Assert("C13.event_ok", eerr == nil)
	if eerr != nil {
		return
	}
	if !writeFirst {
		h.Write([]byte("X"))
	}
	h.Close()
	rows := v.Env.P.VerifRows()
	vm.Assert("C13.tree_well_formed_after_late_close", c13WellFormed(rows))
	var g *models.Header
	for _, r := range rows {
		if r.Deleted != 1 && c13Abs(r.Name) == "/d/g" {
			g = r
		}
	}
	switch ev {
	case 0, 1, 3:
		vm.Assert("C13.entry_gone_stays_gone_after_late_close", g == nil)
	case 2:
		vm.Assert("C13.directory_that_took_the_name_stays_a_directory", g != nil && g.Typeflag == int64(tar.TypeDir))
	}
	vm.Assert("C13.locks_free_after_late_close", v.Env.LocksFree())
}
