package fs

import (
	"io"
	"io/fs"
	"os"

	vm "github.com/pojntfx/stfs/internal/verifmodel"
	"github.com/pojntfx/stfs/pkg/config"
)

var (
	c03Cmp   = []string{config.NoneKey, config.CompressionFormatGZipKey, config.CompressionFormatZStandardKey}
	c03Enc   = []string{config.NoneKey, config.EncryptionFormatAgeKey, config.EncryptionFormatPGPKey}
	c03Sig   = []string{config.NoneKey, config.SignatureFormatMinisignKey}
	c03Names = []string{"/f", "/x.gz", "/y.zst.age"}
)

type c03Sink struct {
	data   []byte
	closed bool
}

func (s *c03Sink) Write(p []byte) (int, error) { s.data = append(s.data, p...); return len(p), nil }
func (s *c03Sink) Close() error                { s.closed = true; return nil }

// Harness_C03_content_round_trip: for every modelled pipeline configuration and content of 0..3 symbolic
// bytes, what is written through the filesystem is read back byte for byte through File.Read and through
// Operations.Restore, and the reported size is the content length.
func Harness_C03_content_round_trip() {
	if vm.Tier() == "thorough" {
		// every compression format STFS offers, and OpenPGP encryption as well
		c03Cmp = []string{config.NoneKey, config.CompressionFormatGZipKey, config.CompressionFormatZStandardKey,
			config.CompressionFormatParallelGZipKey, config.CompressionFormatLZ4Key, config.CompressionFormatBrotliKey,
			config.CompressionFormatBzip2Key, config.CompressionFormatBzip2ParallelKey}
	}
	pipes := config.PipeConfig{
		Compression: c03Cmp[vm.Choice("compression", len(c03Cmp))],
		Encryption:  c03Enc[vm.Choice("encryption", len(c03Enc))],
		Signature:   c03Sig[vm.Choice("signature", len(c03Sig))],
	}
	rc, wc := verifCrypto(pipes)
	if vm.Bool("fileWriteCache") {
		verifWriteCacheType = config.WriteCacheTypeFile
	}
	v := verifNewFSCrypto(pipes, rc, wc, false, true)
	v.Env.Tape.Exists = false
	_, ierr := v.FS.Initialize("/", os.ModePerm)
	vm.Assert("C03.initialize_ok", ierr == nil)
	if ierr != nil {
		return
	}
	name := c03Names[vm.Choice("name", len(c03Names))]
	// 0..3 symbolic bytes, or 100 bytes (more than one copy chunk, so that encoders whose output depends on
	// how their input is chunked see the same chunking in the size pass and in the write pass)
	lenChoice := vm.Choice("len", 6)
	l := []int{0, 1, 2, 3, 100, 6}[lenChoice]
	content := make([]byte, l)
	for i := range content {
		if i < 3 {
			content[i] = vm.Byte("b", "uvw")
		} else {
			content[i] = byte('a' + i%23)
		}
	}
	if lenChoice == 5 {
		// a stored .gz / .zst / .bz2 / .lz4 file: the content starts with the magic number of a codec
		magic := [][]byte{{0x1f, 0x8b, 0x08, 0x00}, {0x28, 0xb5, 0x2f, 0xfd}, {'B', 'Z', 'h', '9'}, {0x04, 0x22, 0x4d, 0x18}}[vm.Choice("magic", 4)]
		copy(content, magic)
	}
	vm.Known("C03-empty-file-unreadable-under-gzip", l == 0 && pipes.Compression == config.CompressionFormatGZipKey)
	vm.Known("C03-name-ending-in-codec-suffix", name != "/f" && (pipes.Compression != config.NoneKey || pipes.Encryption != config.NoneKey))

	h, cerr := v.FS.Create(name)
	vm.Assert("C03.create_ok", cerr == nil)
	if cerr != nil {
		return
	}
	if l > 0 {
		switch style := vm.Choice("writeStyle", 5); {
		case style == 4 && l <= 3:
			// all of it, flushed with Sync, then grown by two bytes with Truncate and nothing else: the file ends in zeros
			n, werr := h.Write(content)
			serr := h.Sync()
			terr := h.Truncate(int64(l + 2))
			vm.Assert("C03.write_ok", werr == nil && n == l && serr == nil && terr == nil)
			content = append(append([]byte{}, content...), 0, 0)
			l += 2
		case style == 3 && l >= 2 && l <= 3:
			// all of it, shrunk to one byte (the offset stays behind the new end), then the rest once more: the gap
			// reads as zeros, like on any file
			n, werr := h.Write(content)
			terr := h.Truncate(1)
			n2, e2 := h.Write(content[1:])
			vm.Assert("C03.write_ok", werr == nil && n == l && terr == nil && e2 == nil && n2 == l-1)
			expected := []byte{content[0]}
			for i := 1; i < l; i++ {
				expected = append(expected, 0)
			}
			expected = append(expected, content[1:]...)
			content = expected
			l = len(expected)
		case style == 1 && l >= 2:
			// in two pieces, looking at the handle in between
			n1, e1 := h.Write(content[:1])
			_, se := h.Stat()
			n2, e2 := h.Write(content[1:])
			vm.Assert("C03.write_ok", e1 == nil && e2 == nil && se == nil && n1+n2 == l)
		case style == 2 && l >= 2:
			// all of it, then the first byte once more in place
			n, werr := h.Write(content)
			_, ske := h.Seek(0, io.SeekStart)
			_, se := h.Stat()
			n2, e2 := h.Write(content[:1])
			vm.Assert("C03.write_ok", werr == nil && n == l && ske == nil && se == nil && e2 == nil && n2 == 1)
		default:
			n, werr := h.Write(content)
			vm.Assert("C03.write_ok", werr == nil && n == l)
		}
	} else {
		// an empty file can come into being in three ways: never written (archived as it is), written with
		// an empty buffer, or written and truncated back to nothing (both go through the content update)
		switch vm.Choice("emptyVia", 3) {
		case 1:
			_, werr := h.Write([]byte{})
			vm.Assert("C03.empty_write_ok", werr == nil)
		case 2:
			_, werr := h.Write([]byte("zz"))
			vm.Assert("C03.write_then_truncate_ok", werr == nil && h.Truncate(0) == nil)
		}
	}
	vm.Assert("C03.close_ok", h.Close() == nil)

	st, serr := v.FS.Stat(name)
	vm.Assert("C03.stat_ok", serr == nil)
	if serr != nil {
		return
	}
	vm.Assert("C03.size_is_content_length", st.Size() == int64(l))

	// read back through the filesystem
	r, oerr := v.FS.Open(name)
	vm.Assert("C03.open_ok", oerr == nil)
	if oerr == nil {
		buf := make([]byte, l+1)
		n, rerr := r.Read(buf)
		vm.Assert("C03.read_back_no_error", rerr == nil || rerr == io.EOF)
		vm.Assert("C03.read_back_count", (n == l) || (l == 0 && n <= 0))
		if n == l {
			for i := 0; i < l; i++ {
				vm.Assert("C03.read_back_bytes", buf[i] == content[i])
			}
		}
		r.Close()
	}
	// restore through the archive interface
	sink := &c03Sink{}
	rerr := v.Env.ReadOps.Restore(
		func(path string, mode fs.FileMode) (io.WriteCloser, error) { return sink, nil },
		func(path string, mode fs.FileMode) error { return nil },
		name, "/out", true,
	)
	vm.Assert("C03.restore_ok", rerr == nil)
	if rerr == nil {
		vm.Assert("C03.restore_bytes", string(sink.data) == string(content))
	}
	// replacing a non-empty content by an empty one (opened with O_TRUNC and closed, or truncated through the handle)
	if l > 0 && l <= 3 && vm.Bool("thenEmptied") {
		var eh interface {
			Truncate(int64) error
			Close() error
		}
		var eerr error
		if vm.Bool("emptiedByTruncate") {
			fh, e := v.FS.OpenFile(name, os.O_RDWR, 0)
			eerr = e
			if e == nil {
				eerr = fh.Truncate(0)
				eh = fh
			}
		} else {
			fh, e := v.FS.OpenFile(name, os.O_WRONLY|os.O_TRUNC, 0)
			eerr = e
			if e == nil {
				eh = fh
			}
		}
		vm.Assert("C03.emptying_ok", eerr == nil)
		if eh != nil {
			vm.Assert("C03.emptying_close_ok", eh.Close() == nil)
		}
		st2, serr2 := v.FS.Stat(name)
		vm.Assert("C03.size_after_emptying", serr2 == nil && st2.Size() == 0)
		r2, oerr2 := v.FS.Open(name)
		vm.Assert("C03.open_after_emptying", oerr2 == nil)
		if oerr2 == nil {
			buf := make([]byte, 2)
			n, rerr := r2.Read(buf)
			vm.Assert("C03.read_after_emptying", n <= 0 && (rerr == nil || rerr == io.EOF))
			r2.Close()
		}
	}
	// the stream handed to the tape was produced by closed compressors/encryptors
	for _, c := range vm.Codecs {
		vm.Assert("C03.compressor_closed_before_stream_ends", c.Closed)
	}
	vm.Assert("C03.locks_free", v.Env.LocksFree())
}

// Harness_C03_highly_compressible_content: 16384 zero bytes under a codec that squeezes them into a stream of a few
// bytes (ratio beyond 1000:1): size and content still round-trip, through the filesystem and through Restore.
func Harness_C03_highly_compressible_content() {
	pipes := config.PipeConfig{Compression: []string{config.CompressionFormatZStandardKey, config.CompressionFormatBzip2Key}[vm.Choice("compression", 2)]}
	v := verifNewFS(pipes, false, true)
	v.Env.Tape.Exists = false
	_, ierr := v.FS.Initialize("/", os.ModePerm)
	vm.Assert("C03.compressible_initialize_ok", ierr == nil)
	if ierr != nil {
		return
	}
	const l = 16384 // (256 copy chunks of zeros; the stream is 12 or 13 bytes long)
	content := make([]byte, l)
	h, cerr := v.FS.Create("/zeros")
	vm.Assert("C03.compressible_create_ok", cerr == nil)
	if cerr != nil {
		return
	}
	n, werr := h.Write(content)
	vm.Assert("C03.compressible_write_ok", werr == nil && n == l)
	vm.Assert("C03.compressible_close_ok", h.Close() == nil)
	st, serr := v.FS.Stat("/zeros")
	vm.Assert("C03.compressible_size", serr == nil && st.Size() == l)
	sink := &c03Sink{}
	rerr := v.Env.ReadOps.Restore(
		func(path string, mode fs.FileMode) (io.WriteCloser, error) { return sink, nil },
		func(path string, mode fs.FileMode) error { return nil },
		"/zeros", "/out", true,
	)
	vm.Assert("C03.compressible_restore_ok", rerr == nil)
	vm.Assert("C03.compressible_restore_delivers_everything", len(sink.data) == l)
	vm.Assert("C03.compressible_stream_is_short", v.Env.Tape.LastMember() != nil && v.Env.Tape.LastMember().Size < 64)
}

// Harness_C03_archive_level_round_trip: content stored through the archive interface (one batched Operations.Archive
// call with a directory and a file, as `stfs operation archive` issues it) under every modelled configuration comes
// back byte for byte through Operations.Restore and through File.Read, with the right size.
func Harness_C03_archive_level_round_trip() {
	pipes := config.PipeConfig{
		Compression: []string{config.NoneKey, config.CompressionFormatGZipKey}[vm.Choice("compression", 2)],
		Encryption:  []string{config.NoneKey, config.EncryptionFormatAgeKey}[vm.Choice("encryption", 2)],
		Signature:   []string{config.NoneKey, config.SignatureFormatMinisignKey}[vm.Choice("signature", 2)], // (signing with OpenPGP is not modelled)
	}
	rc, wc := verifCrypto(pipes)
	v := verifNewFSCrypto(pipes, rc, wc, false, true)
	v.Env.Tape.Exists = false
	_, ierr := v.FS.Initialize("/", os.ModePerm)
	vm.Assert("C03.archive_level_initialize_ok", ierr == nil)
	if ierr != nil {
		return
	}
	l := vm.Concretize(vm.Int("len", 1, 3))
	content := make([]byte, l)
	for i := range content {
		content[i] = vm.Byte("b", "uvw")
	}
	members := []config.FileConfig{
		{GetFile: func() (io.ReadSeekCloser, error) { return &c01Src{}, nil }, Info: c01Info{name: "d", mode: os.ModeDir | 0o750}, Path: "/d"},
		{GetFile: func() (io.ReadSeekCloser, error) { return &c01Src{data: content}, nil }, Info: c01Info{name: "f", size: int64(l), mode: 0o640}, Path: "/d/f"},
	}
	i := 0
	_, aerr := v.Env.WriteOps.Archive(func() (config.FileConfig, error) {
		if i >= len(members) {
			return config.FileConfig{}, io.EOF
		}
		i++
		return members[i-1], nil
	}, config.CompressionLevelFastestKey, false, false)
	vm.Assert("C03.archive_level_archive_ok", aerr == nil)
	if aerr != nil {
		return
	}
	st, serr := v.FS.Stat("/d/f")
	vm.Assert("C03.archive_level_size_is_content_length", serr == nil && st.Size() == int64(l))
	sink := &c03Sink{}
	rerr := v.Env.ReadOps.Restore(
		func(path string, mode fs.FileMode) (io.WriteCloser, error) { return sink, nil },
		func(path string, mode fs.FileMode) error { return nil },
		"/d/f", "/out", true,
	)
	vm.Assert("C03.archive_level_restore_ok", rerr == nil)
	if rerr == nil {
		vm.Assert("C03.archive_level_restore_bytes", string(sink.data) == string(content))
	}
	r, oerr := v.FS.Open("/d/f")
	vm.Assert("C03.archive_level_open_ok", oerr == nil)
	if oerr == nil {
		buf := make([]byte, l+1)
		n, rderr := r.Read(buf)
		vm.Assert("C03.archive_level_read_back", (rderr == nil || rderr == io.EOF) && n == l && string(buf[:n]) == string(content))
		r.Close()
	}
	vm.Assert("C03.archive_level_locks_free", v.Env.LocksFree())
}
