package operations

import (
	"archive/tar"
	"strconv"
	"strings"

	models "github.com/pojntfx/stfs/internal/db/sqlite/models/metadata"
	vm "github.com/pojntfx/stfs/internal/verifmodel"
	"github.com/pojntfx/stfs/pkg/config"
	"github.com/pojntfx/stfs/pkg/persisters"
	"github.com/pojntfx/stfs/pkg/tape"
)

// VerifEnv wires the real TapeManager, MetadataPersister and Operations over the ghost drive (M2) and
// the symbolic index table (M1), the way examples/full wires them over a file and SQLite.
type VerifEnv struct {
	entryFormat tar.Format // format of the next entries added (zero: PAX)
	Drive    string
	Tape     *vm.Tape
	TM       *tape.TapeManager
	P        *persisters.MetadataPersister
	Metadata config.MetadataConfig
	Backend  config.BackendConfig
	ReadOps  *Operations
	WriteOps *Operations
	RS       int
	Events   []*config.HeaderEvent
	// RelNames: pre-state rows are stored the way an index rebuilt from the tape stores them (names relative to the
	// root, the root itself as ""), while the records on the tape keep the absolute names the writer used
	RelNames bool
}

const VerifDrive = "/ghost/drive.tar"

var verifEnvCount int

func VerifNewEnv(pipes config.PipeConfig, readCrypto, writeCrypto config.CryptoConfig) *VerifEnv {
	return VerifNewEnvWith(pipes, readCrypto, writeCrypto, false)
}

// VerifNewEnvWith: overwrite is what `stfs operation archive --overwrite` hands to the tape manager.
func VerifNewEnvWith(pipes config.PipeConfig, readCrypto, writeCrypto config.CryptoConfig, overwrite bool) *VerifEnv {
	drive := VerifDrive
	if verifEnvCount > 0 {
		drive = VerifDrive + "." + strconv.Itoa(verifEnvCount)
	}
	verifEnvCount++
	e := &VerifEnv{Drive: drive, RS: pipes.RecordSize}
	e.Tape = vm.NewTape(drive)
	vm.GhostFS[drive] = e.Tape
	e.TM = tape.NewTapeManager(drive, nil, pipes.RecordSize, overwrite)
	e.P = persisters.VerifNewPersister()
	e.Metadata = config.MetadataConfig{Metadata: e.P}
	e.Backend = config.BackendConfig{
		GetWriter:   e.TM.GetWriter,
		CloseWriter: e.TM.Close,
		GetReader:   e.TM.GetReader,
		CloseReader: e.TM.Close,
	}
	onHeader := func(ev *config.HeaderEvent) { e.Events = append(e.Events, ev) }
	e.ReadOps = NewOperations(e.Backend, e.Metadata, pipes, readCrypto, onHeader)
	e.WriteOps = NewOperations(e.Backend, e.Metadata, pipes, writeCrypto, onHeader)
	return e
}

// AddTapeEntry appends a member (its own archive: member + trailer) without touching the index and
// returns the row that indexing it would produce.
func (e *VerifEnv) AddTapeEntry(name string, typeflag byte, size int64) *models.Header {
	save := e.P
	e.P = nil
	row := e.addEntry(name, typeflag, size, false, "", false)
	e.P = save
	return row
}

// AddTapeTombstone appends the CREATE and the DELETE record of an entry that was removed again, without
// touching the index, and returns the tombstone row indexing them would leave.
func (e *VerifEnv) AddTapeTombstone(name string, typeflag byte) *models.Header {
	save := e.P
	e.P = nil
	row := e.addEntry(name, typeflag, 0, true, "", false)
	e.P = save
	return row
}

// AddEntry puts a consistent (tape member, index row) pair into the pre-state: the member is appended
// to the ghost tape as its own archive and the row points at it (this is what C04 establishes).
func (e *VerifEnv) AddEntry(name string, typeflag byte, size int64, deleted bool, linkname string) *models.Header {
	return e.addEntry(name, typeflag, size, deleted, linkname, true)
}

// AddForeignEntry is AddEntry for a member that a standard tar writer put on the tape in ustar format (no PAX records).
func (e *VerifEnv) AddForeignEntry(name string, typeflag byte, size int64) *models.Header {
	e.entryFormat = tar.FormatUSTAR
	defer func() { e.entryFormat = tar.FormatUnknown }()
	return e.addEntry(name, typeflag, size, false, "", true)
}

func (e *VerifEnv) addEntry(name string, typeflag byte, size int64, deleted bool, linkname string, insert bool) *models.Header {
	start := e.Tape.Len
	format := tar.FormatPAX
	if e.entryFormat != tar.FormatUnknown {
		format = e.entryFormat
	}
	// rows of non-empty regular files carry the uncompressed-size record the writer adds (reachable-state invariant)
	pax := "{}"
	paxMap := map[string]string{}
	if typeflag == tar.TypeReg && size > 0 {
		paxMap["STFS.UncompressedSize"] = strconv.Itoa(int(size))
		pax = "{\"STFS.UncompressedSize\":\"" + strconv.Itoa(int(size)) + "\"}"
	}
	if format != tar.FormatPAX {
		pax, paxMap = "{}", nil
	}
	hdr := &tar.Header{Typeflag: typeflag, Name: name, Linkname: linkname, Size: size, Mode: 0o644, Format: format, PAXRecords: paxMap}
	var data []byte
	if typeflag == tar.TypeReg && size > 0 && size <= 4096 {
		data = make([]byte, size) // (larger contents are not tracked byte by byte: only their extent matters)
	}
	if typeflag != tar.TypeReg {
		size = 0
	}
	e.Tape.AddMember(hdr, 3, size, data)
	e.Tape.AddTrailer()
	lastStart := start
	if deleted {
		// a tombstone is the trace of a DELETE record that follows the CREATE record on the tape
		lastStart = e.Tape.Len
		dh := &tar.Header{Typeflag: typeflag, Name: name, Linkname: linkname, Mode: 0o644, Format: tar.FormatPAX, PAXRecords: map[string]string{"STFS.Version": "1", "STFS.Action": "DELETE"}}
		e.Tape.AddMember(dh, 3, 0, nil)
		e.Tape.AddTrailer()
	}
	blocks := start / 512
	lastBlocks := lastStart / 512
	rs := int64(e.RS)
	row := &models.Header{
		Record: blocks / rs, Block: blocks % rs, Lastknownrecord: lastBlocks / rs, Lastknownblock: lastBlocks % rs,
		Typeflag: int64(typeflag), Name: name, Linkname: linkname, Size: size, Mode: 0o644, Paxrecords: pax, Format: int64(format),
	}
	if e.RelNames {
		row.Name = strings.TrimPrefix(name, "/")
		row.Linkname = strings.TrimPrefix(linkname, "/")
	}
	if deleted {
		row.Deleted = 1
	}
	if insert && e.P != nil {
		e.P.VerifInsert(row)
	}
	return row
}

// LocksFree reports whether every lock a call may take has been released.
func (e *VerifEnv) LocksFree() bool {
	return vm.HeldMutexes() == 0
}

func (o *Operations) VerifDiskLockFree() bool { return vm.MutexFree(&o.diskOperationLock) }
