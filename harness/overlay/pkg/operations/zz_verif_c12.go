package operations

import (
	"archive/tar"
	"strings"

	vm "github.com/pojntfx/stfs/internal/verifmodel"
	"github.com/pojntfx/stfs/pkg/config"
	"github.com/pojntfx/stfs/pkg/persisters"
)

func c12HasWildcard(s string) bool {
	for i := 0; i < len(s); i++ {
		if s[i] == '_' || s[i] == '%' {
			return true
		}
	}
	return false
}

func c12Lower(b byte) byte {
	if b >= 'A' && b <= 'Z' {
		return b | 0x20
	}
	return b
}

// c12FoldPrefix: a has prefix b under ASCII case folding but not bytewise.
func c12FoldPrefixOnly(a, b string) bool {
	if len(a) < len(b) {
		return false
	}
	fold, exact := true, true
	for i := 0; i < len(b); i++ {
		if a[i] != b[i] {
			exact = false
		}
		if c12Lower(a[i]) != c12Lower(b[i]) {
			fold = false
		}
	}
	return fold && !exact
}

type c12State struct {
	env   *VerifEnv
	d     string
	sib   string
	child string
	other string
}

// c12Prestate: root, directory D, a sibling directory S, one entry below D or S, one unrelated file.
func c12Prestate() *c12State {
	env := VerifNewEnv(config.PipeConfig{RecordSize: 20}, config.CryptoConfig{}, config.CryptoConfig{})
	env.AddEntry("/", tar.TypeDir, 0, false, "")
	env.P.VerifSetRoot("/")
	s := &c12State{env: env}
	s.d = "/" + persisters.VerifComponent("D", 2, persisters.VerifAlphabet)
	env.AddEntry(s.d, tar.TypeDir, 0, false, "")
	s.sib = "/" + persisters.VerifComponent("S", 2, persisters.VerifAlphabet)
	vm.Assume(s.sib != s.d)
	env.AddEntry(s.sib, tar.TypeDir, 0, false, "")
	parent := s.d
	if vm.Bool("childUnderSibling") {
		parent = s.sib
	}
	s.child = parent + "/" + persisters.VerifComponent("C", 1, "ab_")
	env.AddEntry(s.child, tar.TypeReg, 0, false, "")
	// the directory's own name reused one level down, below the sibling: "/S/D" and "/S/D/z" contain
	// "/D/" in the middle of their names but are not below "/D"
	if s.sib+s.d != s.child {
		env.AddEntry(s.sib+s.d, tar.TypeDir, 0, false, "")
		env.AddEntry(s.sib+s.d+"/z", tar.TypeReg, 0, false, "")
	}
	return s
}

func (s *c12State) known() {
	vm.Known("C12-like-wildcard", c12HasWildcard(s.d))
	vm.Known("C12-like-casefold", c12FoldPrefixOnly(s.child, s.d+"/"))
}

// Harness_C12_delete_subtree: Operations.Delete(D) tombstones exactly D and the rows below it.
func Harness_C12_delete_subtree() {
	s := c12Prestate()
	before := s.env.P.VerifRows()
	err := s.env.WriteOps.Delete(s.d)
	s.known()
	vm.Assert("C12.delete_no_error", err == nil)
	after := s.env.P.VerifRows()
	vm.Assert("C12.delete_keeps_row_count", len(after) == len(before))
	for i, b := range before {
		a := after[i]
		inSubtree := b.Name == s.d || strings.HasPrefix(b.Name, s.d+"/")
		if inSubtree {
			vm.Assert("C12.delete_subtree_row_tombstoned", a.Deleted == 1 && a.Name == b.Name)
		} else {
			vm.Assert("C12.delete_outside_row_untouched", a.Deleted == b.Deleted && a.Name == b.Name && a.Record == b.Record && a.Block == b.Block && a.Lastknownrecord == b.Lastknownrecord && a.Lastknownblock == b.Lastknownblock)
		}
	}
	// the records appended to the tape are DELETE records for exactly the subtree
	n := 0
	for _, w := range vm.HeadersWritten {
		n++
		vm.Assert("C12.delete_record_in_subtree", w.Hdr.Name == s.d || strings.HasPrefix(w.Hdr.Name, s.d+"/"))
	}
	want := 1
	if strings.HasPrefix(s.child, s.d+"/") {
		want = 2
	}
	vm.Assert("C12.delete_record_count", n == want)
	vm.Assert("C12.delete_locks_free", s.env.LocksFree())
	vm.Cover("C12.delete_with_child", want == 2)
}

// Harness_C12_move_subtree: Operations.Move(D, T) renames exactly D and the rows below it.
func Harness_C12_move_subtree() {
	s := c12Prestate()
	t := "/" + persisters.VerifComponent("T", 2, "abA_.")
	vm.Assume(t != s.d && t != s.sib)
	before := s.env.P.VerifRows()
	err := s.env.WriteOps.Move(s.d, t)
	s.known()
	vm.Assert("C12.move_no_error", err == nil)
	after := s.env.P.VerifRows()
	vm.Assert("C12.move_keeps_row_count", len(after) == len(before))
	for i, b := range before {
		a := after[i]
		if b.Name == s.d {
			vm.Assert("C12.move_dir_renamed", a.Name == t && a.Deleted == 0)
		} else if strings.HasPrefix(b.Name, s.d+"/") {
			vm.Assert("C12.move_descendant_renamed", a.Name == t+b.Name[len(s.d):] && a.Deleted == 0)
			vm.Assert("C12.move_keeps_content_position", a.Record == b.Record && a.Block == b.Block)
		} else {
			vm.Assert("C12.move_outside_row_untouched", a.Name == b.Name && a.Deleted == b.Deleted && a.Record == b.Record && a.Block == b.Block)
		}
	}
	vm.Assert("C12.move_locks_free", s.env.LocksFree())
	vm.Cover("C12.move_with_child", strings.HasPrefix(s.child, s.d+"/"))
}


// Harness_C12_move_nested_subtree: the renamed directory sits below another directory and has children
// whose names share characters with the path of the directory.
func Harness_C12_move_nested_subtree() {
	env := VerifNewEnv(config.PipeConfig{RecordSize: 20}, config.CryptoConfig{}, config.CryptoConfig{})
	env.AddEntry("/", tar.TypeDir, 0, false, "")
	env.P.VerifSetRoot("/")
	pn := "/" + persisters.VerifComponent("P", 1, "ab_")
	env.AddEntry(pn, tar.TypeDir, 0, false, "")
	d := pn + "/" + persisters.VerifComponent("D", 2, "ab_.")
	env.AddEntry(d, tar.TypeDir, 0, false, "")
	c1 := d + "/" + persisters.VerifComponent("C1", 2, "ab_.")
	env.AddEntry(c1, tar.TypeReg, 0, false, "")
	sib := pn + "/" + persisters.VerifComponent("S", 3, "ab_.")
	vm.Assume(sib != d)
	env.AddEntry(sib, tar.TypeReg, 0, false, "")
	t := "/" + persisters.VerifComponent("T", 1, "xyz")
	if vm.Bool("targetNested") {
		t = pn + "/" + persisters.VerifComponent("T", 1, "xyz")
	}
	before := env.P.VerifRows()
	err := env.WriteOps.Move(d, t)
	vm.Assert("C12.nested_move_no_error", err == nil)
	after := env.P.VerifRows()
	vm.Assert("C12.nested_move_keeps_row_count", len(after) == len(before))
	for i, b := range before {
		a := after[i]
		if b.Name == d {
			vm.Assert("C12.nested_move_dir_renamed", a.Name == t && a.Deleted == 0)
		} else if strings.HasPrefix(b.Name, d+"/") {
			vm.Assert("C12.nested_move_descendant_renamed", a.Name == t+b.Name[len(d):] && a.Deleted == 0)
		} else {
			vm.Assert("C12.nested_move_outside_row_untouched", a.Name == b.Name && a.Deleted == b.Deleted)
		}
		vm.Assert("C12.nested_move_keeps_content_position", a.Record == b.Record && a.Block == b.Block)
	}
	vm.Assert("C12.nested_move_locks_free", env.LocksFree())
}
