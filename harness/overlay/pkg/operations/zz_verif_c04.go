package operations

import (
	"archive/tar"
	"io"
	"os"
	"strings"
	"time"

	vm "github.com/pojntfx/stfs/internal/verifmodel"
	"github.com/pojntfx/stfs/pkg/config"
)

type c04Info struct {
	name string
	size int64
	mode os.FileMode
}

func (i c04Info) Name() string       { return i.name }
func (i c04Info) Size() int64        { return i.size }
func (i c04Info) Mode() os.FileMode  { return i.mode }
func (i c04Info) ModTime() time.Time { return time.Time{} }
func (i c04Info) IsDir() bool        { return i.mode.IsDir() }
func (i c04Info) Sys() interface{}   { return nil }

type c04Src struct {
	data []byte
	pos  int
}

func (s *c04Src) Read(p []byte) (int, error) {
	if s.pos >= len(s.data) {
		return 0, io.EOF
	}
	n := copy(p, s.data[s.pos:])
	s.pos += n
	return n, nil
}
func (s *c04Src) Seek(off int64, whence int) (int64, error) {
	if whence == io.SeekStart {
		s.pos = int(off)
	}
	return int64(s.pos), nil
}
func (s *c04Src) Close() error { return nil }

// Harness_C04_batched_archive_positions: one batched Operations.Archive call — appending, or overwriting the tape
// the way `stfs operation archive --overwrite` does (tape manager and call both told to overwrite) — with a
// directory and files of symbolic sizes: every entry of the call is indexed at the start of its own record, the
// greatest last-known position is the last record, and after an overwriting call nothing else is in the index.
func Harness_C04_batched_archive_positions() {
	overwrite := vm.Bool("overwrite")
	rsChoice := vm.Choice("recordSize", 3)
	e := VerifNewEnvWith(config.PipeConfig{RecordSize: []int{20, 3, 1024}[rsChoice]}, config.CryptoConfig{}, config.CryptoConfig{}, overwrite)
	e.AddEntry("/", tar.TypeDir, 0, false, "")
	e.P.VerifSetRoot("/")
	e.AddEntry("/old", tar.TypeReg, 700, false, "")
	if rsChoice == 2 {
		// records of more than 512 blocks: an entry late in record 0 (block > 512) and a newer one early in record 1
		e.AddEntry("/big1", tar.TypeReg, 310000, false, "")
		e.AddEntry("/big2", tar.TypeReg, 250000, false, "")
		e.AddEntry("/late", tar.TypeReg, 0, false, "")
	}
	sizes := []int{vm.Concretize(vm.Int("size0", 0, 3)), vm.Concretize(vm.Int("size1", 0, 3))}
	members := []config.FileConfig{
		{GetFile: func() (io.ReadSeekCloser, error) { return &c04Src{}, nil }, Info: c04Info{name: "/", mode: os.ModeDir | 0o755}, Path: "/"},
		{GetFile: func() (io.ReadSeekCloser, error) { return &c04Src{}, nil }, Info: c04Info{name: "n", mode: os.ModeDir | 0o750}, Path: "/n"},
	}
	for i, n := range []string{"/n/a", "/n/b"} {
		data := []byte("xyz")[:sizes[i]]
		members = append(members, config.FileConfig{
			GetFile: func() (io.ReadSeekCloser, error) { return &c04Src{data: data}, nil },
			Info:    c04Info{name: n, size: int64(len(data)), mode: 0o640},
			Path:    n,
		})
	}
	if !overwrite {
		members = members[1:] // the root is there already
	}
	i := 0
	segsBefore := len(e.Tape.Segs)
	_, err := e.WriteOps.Archive(func() (config.FileConfig, error) {
		if i >= len(members) {
			return config.FileConfig{}, io.EOF
		}
		i++
		return members[i-1], nil
	}, config.CompressionLevelFastestKey, overwrite, false)
	vm.Assert("C04.batched_archive_ok", err == nil)
	if err != nil {
		return
	}
	rs := int64(e.RS)
	var written []*vm.Seg
	start := segsBefore
	if overwrite {
		start = 0
	}
	for _, g := range e.Tape.Segs[start:] {
		if g.Kind == vm.SegMember {
			written = append(written, g)
		}
	}
	vm.Assert("C04.batched_archive_wrote_one_record_per_entry", len(written) == len(members))
	maxLast := int64(-1)
	rows := e.P.VerifRows()
	for _, r := range rows {
		if last := (r.Lastknownrecord*rs + r.Lastknownblock) * 512; last > maxLast {
			maxLast = last
		}
	}
	for _, g := range written {
		found := false
		for _, r := range rows {
			// (an index that was purged and refilled stores names relative to the root, like a rebuilt one)
			if r.Deleted != 1 && strings.Trim(r.Name, "/") == strings.Trim(g.Hdr.Name, "/") {
				found = true
				vm.Assert("C04.batched_entry_indexed_at_its_own_record", (r.Record*rs+r.Block)*512 == g.Start)
			}
		}
		vm.Assert("C04.batched_entry_is_in_the_index", found)
	}
	if len(written) > 0 {
		vm.Assert("C04.batched_last_known_position_is_the_last_record", maxLast == written[len(written)-1].Start)
	}
	if overwrite {
		vm.Assert("C04.overwriting_archive_leaves_only_its_entries", len(rows) == len(members))
	}
	vm.Assert("C04.batched_archive_locks_free", e.LocksFree())
}

// Harness_C04_update_positions: one Operations.Update call as `stfs operation update` issues it (caller-supplied file
// information; with and without the size check; replacing the content by 0..2 bytes, or metadata only) on an entry
// with 700 bytes. A replacement moves the entry's content position to the record the call wrote — also when the new
// content is empty —, a metadata-only update keeps it and advances the last-known position.
func Harness_C04_update_positions() {
	e := VerifNewEnvWith(config.PipeConfig{RecordSize: 20}, config.CryptoConfig{}, config.CryptoConfig{}, false)
	e.AddEntry("/", tar.TypeDir, 0, false, "")
	e.P.VerifSetRoot("/")
	e.AddEntry("/old", tar.TypeReg, 700, false, "")
	e.AddEntry("/other", tar.TypeReg, 5, false, "")
	var oldRec, oldBlk int64
	for _, r := range e.P.VerifRows() {
		if r.Name == "/old" {
			oldRec, oldBlk = r.Record, r.Block
		}
	}
	replace := vm.Bool("replace")
	skipSizeCheck := vm.Bool("skipSizeCheck")
	size := vm.Concretize(vm.Int("newSize", 0, 2))
	data := []byte("xy")[:size]
	done := false
	segsBefore := len(e.Tape.Segs)
	_, err := e.WriteOps.Update(func() (config.FileConfig, error) {
		if done {
			return config.FileConfig{}, io.EOF
		}
		done = true
		return config.FileConfig{
			GetFile: func() (io.ReadSeekCloser, error) { return &c04Src{data: data}, nil },
			Info:    c04Info{name: "old", size: int64(size), mode: 0o600},
			Path:    "/old",
		}, nil
	}, config.CompressionLevelFastestKey, replace, skipSizeCheck)
	vm.Assert("C04.update_ok", err == nil)
	if err != nil {
		return
	}
	var written []*vm.Seg
	for _, g := range e.Tape.Segs[segsBefore:] {
		if g.Kind == vm.SegMember {
			written = append(written, g)
		}
	}
	vm.Assert("C04.update_wrote_one_record", len(written) == 1)
	if len(written) != 1 {
		return
	}
	rs := int64(e.RS)
	for _, r := range e.P.VerifRows() {
		if r.Name != "/old" {
			continue
		}
		vm.Assert("C04.update_last_known_position_is_the_new_record", (r.Lastknownrecord*rs+r.Lastknownblock)*512 == written[0].Start)
		if replace {
			vm.Assert("C04.replaced_content_is_at_the_new_record", (r.Record*rs+r.Block)*512 == written[0].Start)
			vm.Assert("C04.replaced_content_has_the_new_size", r.Size == int64(size))
		} else {
			vm.Assert("C04.metadata_update_keeps_the_content_position", r.Record == oldRec && r.Block == oldBlk)
		}
	}
	vm.Assert("C04.update_locks_free", e.LocksFree())
}
