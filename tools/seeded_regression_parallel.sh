#!/bin/sh
# usage: seeded_regression_parallel.sh [workers]
# Like seeded_regression.sh, but each worker has its own scratch worktree of /repo's HEAD and its own copy of /verif
# (so /repo and /verif/evidence are not touched; the native lane, which is tied to /repo, is skipped). Prints one
# line per seeded change; exit 1 if one is not caught or does not apply.
N=${1:-4}
export GOFLAGS=-mod=mod GOPROXY=off GOSUMDB=off GOTOOLCHAIN=local
OUT=/tmp/seedreg_par; rm -rf $OUT; mkdir -p $OUT
ls -d /verif/seeded/*/ > $OUT/all.txt
i=0
for k in $(seq 1 $N); do : > $OUT/list_$k.txt; done
while read d; do i=$((i+1)); k=$(( (i % N) + 1 )); echo "$d" >> $OUT/list_$k.txt; done < $OUT/all.txt
for k in $(seq 1 $N); do
  (
    R=/tmp/rreg_$k; V=/tmp/vreg_$k
    git -C /repo worktree remove --force $R >/dev/null 2>&1; rm -rf $R $V
    git -C /repo worktree add --detach $R HEAD >/dev/null 2>&1
    mkdir -p $V && (cd /verif && tar cf - --exclude=.git --exclude=evidence/cex . ) | (cd $V && tar xf -)
    while read d; do
      n=$(basename $d); P=$(echo $n | cut -c1-3)
      (cd $R && git apply "$d/patch.diff") || { echo "$n: patch does not apply"; continue; }
      (cd $V && VERIF_REPO=$R ./check $P quick > $OUT/$n.log 2>&1); RC=$?
      (cd $R && git checkout -- . && git clean -fdq)
      VL=$(grep -c "^VIOLATION" $OUT/$n.log)
      if [ $RC -eq 1 ] && [ $VL -gt 0 ]; then echo "$n: caught ($VL violation lines)"; elif [ "$(jq -r "if has(\"caught\") then .caught else true end" $d/meta.json)" = "false" ]; then echo "$n: expected_miss (documented, exit $RC)"; else echo "$n: NOT CAUGHT (exit $RC)"; fi
    done < $OUT/list_$k.txt
    git -C /repo worktree remove --force $R >/dev/null 2>&1; rm -rf $V
  ) > $OUT/worker_$k.out 2>&1 &
done
wait
cat $OUT/worker_*.out | grep -v "^WARNING" | sort
if cat $OUT/worker_*.out | grep -q "NOT CAUGHT\|does not apply"; then exit 1; fi
exit 0
