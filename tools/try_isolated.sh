#!/bin/sh
# usage: try_isolated.sh <property> <patch.diff> [verif-dir]
# Like try_seeded.sh, but touches neither /repo nor /verif/evidence: the patch is applied in a scratch worktree of
# /repo's HEAD and the check runs from a scratch copy of the given verif directory (default /verif).
PROP=$1; PATCH=$2; SRC=${3:-/verif}
export GOFLAGS=-mod=mod GOPROXY=off GOSUMDB=off GOTOOLCHAIN=local
R=/tmp/rtry_$$; V=/tmp/vtry_$$
git -C /repo worktree add --detach $R HEAD >/dev/null 2>&1 || exit 2
mkdir -p $V && (cd $SRC && tar cf - --exclude=.git --exclude=evidence/cex . ) | (cd $V && tar xf -)
(cd $R && git apply "$PATCH") || { echo "patch does not apply"; git -C /repo worktree remove --force $R; rm -rf $V; exit 2; }
(cd $R && go build ./...) || { echo "does not build"; git -C /repo worktree remove --force $R; rm -rf $V; exit 2; }
(cd $V && VERIF_REPO=$R ./check $PROP quick > /tmp/tryiso_$PROP.log 2>&1); RC=$?
git -C /repo worktree remove --force $R >/dev/null 2>&1; rm -rf $V
echo "== $PROP with $(basename $(dirname $PATCH)) [$SRC]: exit $RC $(grep -c '^VIOLATION' /tmp/tryiso_$PROP.log) violations $(grep -c '^INCONCLUSIVE' /tmp/tryiso_$PROP.log) inconclusive"
grep -E "^VIOLATION|^INCONCLUSIVE" /tmp/tryiso_$PROP.log | sed 's/.*assert=//; s/.*reason=//' | sort | uniq -c | head -4
exit 0
