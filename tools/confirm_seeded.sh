#!/bin/sh
# usage: confirm_seeded.sh <id> <worktree> <pkgdir> <testfile-name> <go test -run pattern> [extra go test flags]
# Confirms a seeded change in a scratch worktree: demo fails with the patch, passes without, build ok.
ID=$1; WT=$2; PKG=$3; TF=$4; PAT=$5; EXTRA=$6
export GOFLAGS=-mod=mod GOPROXY=off GOSUMDB=off GOTOOLCHAIN=local
cd $WT || exit 2
SEED=$WT/_seeded
mkdir -p /tmp/seedkeep_$ID && cp $SEED/patch.diff $SEED/demo_test.go $SEED/meta.json /tmp/seedkeep_$ID/
git checkout -q -- . ; git clean -fdq -e _seeded
cp /tmp/seedkeep_$ID/demo_test.go $PKG/$TF
echo "--- without patch:"; go test -vet=off -count=1 $EXTRA -run "$PAT" ./$PKG/ 2>&1 | tail -2
git apply /tmp/seedkeep_$ID/patch.diff || { echo "patch does not apply"; exit 2; }
go build ./... || { echo "build fails"; exit 2; }
echo "--- with patch:"; go test -vet=off -count=1 $EXTRA -run "$PAT" ./$PKG/ 2>&1 | grep -E "^(--- FAIL|FAIL|ok|panic)" | head -4
git checkout -q -- . ; rm -f $PKG/$TF
