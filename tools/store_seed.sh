#!/bin/sh
# usage: store_seed.sh <worktree> <confirm-log> <seeded-dir-name> <round>  -- copies a confirmed seeded change into /verif/seeded
WT=$1; LOG=$2; NAME=$3; ROUND=$4
D=/verif/seeded/$NAME
mkdir -p $D
cp $WT/_seeded/patch.diff $WT/_seeded/demo_test.go $D/
python3 - "$WT" "$LOG" "$D" "$ROUND" <<'PY'
import json,sys
WT,LOG,D,ROUND=sys.argv[1:]
m=json.load(open(WT+'/_seeded/meta.json'))
m['author']='independent sub-agent given only the property text and a scratch worktree (round %s)'%ROUND
log=[l for l in open(LOG).read().splitlines() if not l.startswith('WARNING')]
m['confirmed_by_me']=['tools/confirm_r4.sh %s:'%WT]+log
json.dump(m,open(D+'/meta.json','w'),indent=1)
PY
