#!/bin/sh
# usage: confirm_r4.sh <worktree>   -- confirms a seeded change delivered in <worktree>/_seeded (meta.json names the
# demo's package dir, file name and -run pattern): demo passes without the patch, fails with it, build ok, pinned tests ok.
WT=$1
export GOFLAGS=-mod=mod GOPROXY=off GOSUMDB=off GOTOOLCHAIN=local
cd $WT || exit 2
S=$WT/_seeded
PKG=$(jq -r .demo_pkg_dir $S/meta.json); TF=$(jq -r .demo_file_name $S/meta.json); PAT=$(jq -r .demo_run_pattern $S/meta.json)
EXTRA=$(jq -r '.demo_extra_flags // ""' $S/meta.json)
git checkout -q -- . ; git clean -fdq -e _seeded
cp $S/demo_test.go $PKG/$TF
echo "--- without patch:"; go test -vet=off -count=1 $EXTRA -run "$PAT" ./$PKG/ 2>&1 | tail -2
git apply $S/patch.diff || { echo "patch does not apply"; exit 2; }
go build ./... || { echo "build fails"; exit 2; }
echo "--- with patch:"; go test -vet=off -count=1 $EXTRA -run "$PAT" ./$PKG/ 2>&1 | grep -E "^(--- FAIL|FAIL|ok|panic|fatal)" | head -4
rm -f $PKG/$TF
echo "--- pinned tests with patch:"; go test -vet=off -count=1 -run 'TestFile_Name|TestFileInfo' ./pkg/fs/ 2>&1 | tail -1
git checkout -q -- .
