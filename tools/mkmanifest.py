#!/usr/bin/env python3
import json
props=[json.loads(l) for l in open('/verif/properties.jsonl')]
base=json.load(open('/root/.vp/BASELINE.json'))
claimed=json.load(open('/verif/tools/claims.json'))
checks=[]; na=[]
for p in props:
    pid=p['id']
    c=claimed.get(pid)
    if c and c.get('claim'):
        checks.append({
          "property_id":pid,
          "quick_cmd":f"./check {pid} quick",
          "thorough_cmd":f"./check {pid} thorough",
          "evidence_file":f"/verif/evidence/{pid}.json",
          "replay_cmd_template":"./replay.sh {path}",
          "engine":"gosym",
          "level_claimed":{"category":"model_checking","text":c['text'],"design_ref":c.get('design_ref','DESIGN.md §4')},
          "level_note":c['note'],
          "technique":c.get('technique',"bounded symbolic execution of the real go/ssa code + SMT (z3; bit-vectors with wrap-around), property as negated assertion, unsat = holds within the stated bounds"),
        })
    else:
        na.append({"property_id":pid,"reason":(c or {}).get('reason',"check not built yet (engine under construction)")})
m={"version":1,
 "setup_cmd":"cd /verif/engine && GOFLAGS=-mod=mod GOPROXY=off GOSUMDB=off GOTOOLCHAIN=local go build -o /verif/bin/gosym ./cmd/gosym && GOFLAGS=-mod=mod GOPROXY=off GOSUMDB=off GOTOOLCHAIN=local /verif/bin/gosym warm",
 "hooks":{"guard":"verif","enable":"none needed: harness and model files are added to a scratch copy of /repo's working tree at check time (nothing is written to /repo)","baseline_off_cmd":base['cmd'],"source_commits":[],"add_only":True},
 "engines":[{"name":"gosym","path":"/verif/engine","serves_properties":[c['property_id'] for c in checks],"kind_free_text":"symbolic executor for go/ssa (x/tools v0.29.0) with SMT-LIB2 back ends (z3 4.8.12, cvc5), written for this task"}],
 "checks":checks,
 "notes":"exit 0 held / 1 VIOLATION / 3 INCONCLUSIVE (solver unknown, unsupported construct, unwinding failure, vacuous harness). See DESIGN.md.",
 "not_applicable":na}
json.dump(m,open('/verif/MANIFEST.json','w'),indent=1)
print(len(checks),'checks',len(na),'n/a')
