#!/bin/sh
# Runs the repository's test suite (guard off) and checks that every test of BASELINE.json's stable_pass passes.
export GOFLAGS=-mod=mod GOPROXY=off GOSUMDB=off GOTOOLCHAIN=local
OUT=$(mktemp)
(cd /repo && go test -mod=mod -json -vet=off -count=1 -timeout 25m ./... > "$OUT" 2>/dev/null)
python3 - "$OUT" <<'PY'
import json,sys
passed=set()
for l in open(sys.argv[1]):
    try: e=json.loads(l)
    except Exception: continue
    if e.get('Action')=='pass' and e.get('Test'):
        passed.add(e['Package']+'::'+e['Test'])
base=json.load(open('/root/.vp/BASELINE.json'))
want=set(base['stable_pass'])
missing=sorted(want-passed)
print('baseline tests:',len(want),'passed now:',len(want&passed),'missing:',len(missing))
for m in missing[:10]: print('  MISSING',m)
sys.exit(1 if missing else 0)
PY
RC=$?
rm -f "$OUT"
exit $RC
