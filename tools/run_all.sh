#!/bin/sh
# usage: run_all.sh [tier]  -- runs every claimed check on /repo's current tree, one line per check.
TIER=${1:-quick}
cd /verif
for P in $(jq -r '.checks[].property_id' MANIFEST.json); do
  S=$(date +%s)
  ./check $P $TIER > /tmp/runall_$P.log 2>&1; RC=$?
  E=$(( $(date +%s) - S ))
  echo "$P exit=$RC ${E}s $(grep -c '^KNOWN-FINDING' /tmp/runall_$P.log) known $(grep -c '^VIOLATION' /tmp/runall_$P.log) violations $(grep -c '^INCONCLUSIVE' /tmp/runall_$P.log) inconclusive"
done
