#!/bin/sh
# usage: try_seeded.sh <property> <patch.diff> [tier]  -- applies the patch to /repo, runs the check, reverts.
PROP=$1; PATCH=$2; TIER=${3:-quick}
cd /repo || exit 2
if [ -n "$(git status --porcelain)" ]; then echo "/repo is dirty, refusing"; exit 2; fi
git apply "$PATCH" || { echo "patch does not apply"; exit 2; }
GOFLAGS=-mod=mod GOPROXY=off GOSUMDB=off GOTOOLCHAIN=local go build ./... || { echo "does not build"; git checkout -- .; exit 2; }
cd /verif && ./check $PROP $TIER > /tmp/try_$PROP.log 2>&1
RC=$?
cd /repo && git checkout -- .
echo "== $PROP with $(basename $(dirname $PATCH))/$(basename $PATCH): exit $RC"
grep -E "^VIOLATION|^INCONCLUSIVE|^check " /tmp/try_$PROP.log | head -6
exit 0
