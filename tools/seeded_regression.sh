#!/bin/sh
# Applies every seeded change in /verif/seeded to /repo in turn, runs the quick check of its property and expects
# exit 1 with a VIOLATION line; reverts after each. /repo must be clean. Prints one line per change.
cd /repo || exit 2
if [ -n "$(git status --porcelain)" ]; then echo "/repo is dirty, refusing"; exit 2; fi
FAIL=0
for d in /verif/seeded/*/; do
  n=$(basename $d); P=$(echo $n | cut -c1-3)
  git apply "$d/patch.diff" || { echo "$n: patch does not apply"; FAIL=1; continue; }
  (cd /verif && ./check $P quick > /tmp/seedreg_$n.log 2>&1); RC=$?
  git checkout -- .
  V=$(grep -c "^VIOLATION" /tmp/seedreg_$n.log)
  if [ $RC -eq 1 ] && [ $V -gt 0 ]; then echo "$n: caught ($V violation lines)"; elif [ "$(jq -r 'if has("caught") then .caught else true end' $d/meta.json)" = "false" ]; then echo "$n: expected_miss (documented, exit $RC)"; else echo "$n: NOT CAUGHT (exit $RC)"; FAIL=1; fi
  rm -f /tmp/seedreg_$n.log
done
exit $FAIL
