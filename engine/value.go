package engine

import (
	"fmt"
	"go/types"
	"strings"

	"golang.org/x/tools/go/ssa"
)

// Value is one of: *Term, *StrVal, *StructVal, *ArrayVal, *Pointer, *SliceVal,
// *MapVal, *IfaceVal, *FuncVal, TupleVal, *RangeIter
type Value interface{}

// StrVal: string with concrete length and per-byte terms.
type StrVal struct {
	B    []*Term
	conc string
	isC  bool
	ckd  bool
}

func StrC(s string) *StrVal {
	b := make([]*Term, len(s))
	for i := 0; i < len(s); i++ {
		b[i] = byteConst(s[i])
	}
	return &StrVal{B: b, conc: s, isC: true, ckd: true}
}

var byteConsts [256]*Term

func init() {
	for i := range byteConsts {
		byteConsts[i] = BVC(8, uint64(i))
	}
}

func byteConst(b byte) *Term { return byteConsts[b] }

func StrFromTerms(b []*Term) *StrVal { return &StrVal{B: b} }

func (s *StrVal) Concrete() (string, bool) {
	if s.ckd {
		return s.conc, s.isC
	}
	s.ckd = true
	bs := make([]byte, len(s.B))
	for i, t := range s.B {
		if !t.IsConst() {
			s.isC = false
			return "", false
		}
		bs[i] = byte(t.C)
	}
	s.conc = string(bs)
	s.isC = true
	return s.conc, true
}

func (s *StrVal) Len() int { return len(s.B) }

func (s *StrVal) String() string {
	if c, ok := s.Concrete(); ok {
		return fmt.Sprintf("%q", c)
	}
	var sb strings.Builder
	sb.WriteString("str[")
	for _, t := range s.B {
		if t.IsConst() {
			sb.WriteByte(byte(t.C))
		} else {
			sb.WriteString("<" + t.SMT() + ">")
		}
	}
	sb.WriteString("]")
	return sb.String()
}

func StrEq(a, b *StrVal) *Term {
	if len(a.B) != len(b.B) {
		return FalseT
	}
	cs := make([]*Term, 0, len(a.B))
	for i := range a.B {
		e := Eq(a.B[i], b.B[i])
		if e.IsFalse() {
			return FalseT
		}
		cs = append(cs, e)
	}
	return And(cs...)
}

// StrLt: lexicographic a < b
func StrLt(a, b *StrVal) *Term {
	// build from the end
	n := len(a.B)
	if len(b.B) < n {
		n = len(b.B)
	}
	res := BoolC(len(a.B) < len(b.B))
	for i := n - 1; i >= 0; i-- {
		res = Ite(Eq(a.B[i], b.B[i]), res, ULt(a.B[i], b.B[i]))
	}
	return res
}

type StructVal struct {
	F []Value
}

type ArrayVal struct {
	E    []Value
	Zero Value // lazily used when E[i]==nil
}

func (a *ArrayVal) Get(i int) Value {
	if a.E[i] == nil {
		return a.Zero
	}
	return a.E[i]
}

// Object is a heap cell (an allocation).
type Object struct {
	ID   int
	Val  Value
	Typ  types.Type
	Tag  string
	Heap bool
}

// Pointer into an object; Obj==nil means nil pointer. Opaque pointers have Opaque != "".
type Pointer struct {
	Obj  *Object
	Path []int
}

var NilPtr = &Pointer{}

func (p *Pointer) IsNil() bool { return p == nil || p.Obj == nil }

func (p *Pointer) Sub(i int) *Pointer {
	np := make([]int, len(p.Path)+1)
	copy(np, p.Path)
	np[len(p.Path)] = i
	return &Pointer{Obj: p.Obj, Path: np}
}

func PtrEq(a, b *Pointer) bool {
	if a.IsNil() || b.IsNil() {
		return a.IsNil() && b.IsNil()
	}
	if a.Obj != b.Obj || len(a.Path) != len(b.Path) {
		return false
	}
	for i := range a.Path {
		if a.Path[i] != b.Path[i] {
			return false
		}
	}
	return true
}

type SliceVal struct {
	Obj *Object // holds *ArrayVal ; nil for nil slice
	Off int
	Len int
	Cap int
}

func (s *SliceVal) IsNil() bool { return s == nil || s.Obj == nil }

func (s *SliceVal) Arr() *ArrayVal { return s.Obj.Val.(*ArrayVal) }

type MapEntry struct {
	K Value
	V Value
}

type MapVal struct {
	Entries []*MapEntry
	Nil     bool
	KT, VT  types.Type
}

type IfaceVal struct {
	T types.Type // dynamic type; nil => nil interface
	V Value
}

var NilIface = &IfaceVal{}

func (i *IfaceVal) IsNil() bool { return i == nil || i.T == nil }

type FuncVal struct {
	Fn        *ssa.Function
	Free      []Value
	Intrinsic string // non-empty => engine intrinsic by name
	Recv      Value  // bound receiver for method values of intrinsics
	Nil       bool
}

var NilFunc = &FuncVal{Nil: true}

type TupleVal []Value

type RangeIter struct {
	Str  *StrVal
	Map  *MapVal
	Pos  int
	Keys []*MapEntry
}

// ChanVal is a very small channel model (unbuffered semantics are not modelled; used only as a queue).
type ChanVal struct {
	Q      []Value
	Closed bool
}

// ---------- zero values & copying ----------

func isNamedType(t types.Type, pkg, name string) bool {
	n, ok := t.(*types.Named)
	if !ok {
		return false
	}
	o := n.Obj()
	return o.Name() == name && o.Pkg() != nil && o.Pkg().Path() == pkg
}

func basicWidth(b *types.Basic) (w int, signed bool, ok bool) {
	switch b.Kind() {
	case types.Int, types.Int64, types.UntypedInt:
		return 64, true, true
	case types.Int8:
		return 8, true, true
	case types.Int16:
		return 16, true, true
	case types.Int32, types.UntypedRune:
		return 32, true, true
	case types.Uint, types.Uint64, types.Uintptr:
		return 64, false, true
	case types.Uint8:
		return 8, false, true
	case types.Uint16:
		return 16, false, true
	case types.Uint32:
		return 32, false, true
	case types.UnsafePointer:
		return 64, false, true
	}
	return 0, false, false
}

func (e *Engine) zero(t types.Type) Value {
	switch u := t.Underlying().(type) {
	case *types.Basic:
		if w, _, ok := basicWidth(u); ok {
			return BVC(w, 0)
		}
		switch u.Kind() {
		case types.Bool, types.UntypedBool:
			return FalseT
		case types.String, types.UntypedString:
			return StrC("")
		case types.Float64, types.Float32, types.UntypedFloat:
			return FPConst(0)
		case types.UntypedNil:
			return NilPtr
		}
		panic(fmt.Sprintf("zero: unsupported basic %v", u))
	case *types.Struct:
		sv := &StructVal{F: make([]Value, u.NumFields())}
		for i := 0; i < u.NumFields(); i++ {
			sv.F[i] = e.zero(u.Field(i).Type())
		}
		return sv
	case *types.Array:
		n := int(u.Len())
		av := &ArrayVal{E: make([]Value, n)}
		z := e.zero(u.Elem())
		switch z.(type) {
		case *StructVal, *ArrayVal:
			for i := range av.E {
				av.E[i] = e.zero(u.Elem())
			}
		default:
			av.Zero = z
		}
		return av
	case *types.Pointer:
		return NilPtr
	case *types.Slice:
		return &SliceVal{}
	case *types.Map:
		return &MapVal{Nil: true, KT: u.Key(), VT: u.Elem()}
	case *types.Interface:
		return NilIface
	case *types.Signature:
		return NilFunc
	case *types.Chan:
		return (*ChanVal)(nil)
	case *types.Tuple:
		tv := make(TupleVal, u.Len())
		for i := range tv {
			tv[i] = e.zero(u.At(i).Type())
		}
		return tv
	}
	panic(fmt.Sprintf("zero: unsupported type %v (%T)", t, t.Underlying()))
}

// copyVal deep-copies aggregate values (struct/array); everything else is immutable or a reference.
func copyVal(v Value) Value {
	switch x := v.(type) {
	case *StructVal:
		n := &StructVal{F: make([]Value, len(x.F))}
		for i, f := range x.F {
			n.F[i] = copyVal(f)
		}
		return n
	case *ArrayVal:
		n := &ArrayVal{E: make([]Value, len(x.E)), Zero: x.Zero}
		for i, f := range x.E {
			if f != nil {
				n.E[i] = copyVal(f)
			}
		}
		return n
	case TupleVal:
		n := make(TupleVal, len(x))
		for i, f := range x {
			n[i] = copyVal(f)
		}
		return n
	}
	return v
}

// navigate returns the container and final index for a pointer path.
func (p *Pointer) load() Value {
	v := p.Obj.Val
	for _, i := range p.Path {
		switch c := v.(type) {
		case *StructVal:
			v = c.F[i]
		case *ArrayVal:
			v = c.Get(i)
		default:
			panic(fmt.Sprintf("load: bad path through %T", v))
		}
	}
	return v
}

func (p *Pointer) store(nv Value) {
	if len(p.Path) == 0 {
		p.Obj.Val = nv
		return
	}
	v := p.Obj.Val
	for k, i := range p.Path {
		last := k == len(p.Path)-1
		switch c := v.(type) {
		case *StructVal:
			if last {
				c.F[i] = nv
				return
			}
			v = c.F[i]
		case *ArrayVal:
			if last {
				c.E[i] = nv
				return
			}
			if c.E[i] == nil {
				c.E[i] = copyVal(c.Zero)
			}
			v = c.E[i]
		default:
			panic(fmt.Sprintf("store: bad path through %T", v))
		}
	}
}

func showValue(v Value) string {
	switch x := v.(type) {
	case nil:
		return "<nil>"
	case *Term:
		return x.SMT()
	case *StrVal:
		return x.String()
	case *StructVal:
		var parts []string
		for _, f := range x.F {
			parts = append(parts, showValue(f))
		}
		return "{" + strings.Join(parts, ", ") + "}"
	case *Pointer:
		if x.IsNil() {
			return "nilptr"
		}
		return fmt.Sprintf("&obj%d%v", x.Obj.ID, x.Path)
	case *SliceVal:
		if x.IsNil() {
			return "nilslice"
		}
		return fmt.Sprintf("slice(obj%d,%d,%d)", x.Obj.ID, x.Off, x.Len)
	case *IfaceVal:
		if x.IsNil() {
			return "niliface"
		}
		return fmt.Sprintf("iface(%v:%s)", x.T, showValue(x.V))
	case *FuncVal:
		if x.Nil {
			return "nilfunc"
		}
		if x.Fn != nil {
			return "func " + x.Fn.String()
		}
		return "intrinsic " + x.Intrinsic
	case *MapVal:
		return fmt.Sprintf("map(%d)", len(x.Entries))
	case TupleVal:
		var parts []string
		for _, f := range x {
			parts = append(parts, showValue(f))
		}
		return "(" + strings.Join(parts, ", ") + ")"
	}
	return fmt.Sprintf("%T", v)
}
