package main

import (
	"flag"
	"fmt"
	"os"
	"path/filepath"
	"runtime"
	"strings"
	"time"

	"verif/engine"
)

func overlayFrom(root, repo string) map[string]string {
	ov := map[string]string{}
	filepath.Walk(root, func(path string, info os.FileInfo, err error) error {
		if err != nil || info.IsDir() || !strings.HasSuffix(path, ".go") {
			return nil
		}
		rel, _ := filepath.Rel(root, path)
		ov[rel] = path
		return nil
	})
	return ov
}

func main() {
	if len(os.Args) < 2 {
		fmt.Println("usage: gosym run|check ...")
		os.Exit(2)
	}
	switch os.Args[1] {
	case "run":
		runCmd(os.Args[2:])
	case "check":
		checkCmd(os.Args[2:])
	case "replay":
		replayCmd(os.Args[2:])
	case "warm":
		e, err := loadEngine("/repo", "/verif")
		if e != nil {
			e.Cleanup()
		}
		if err != nil {
			fmt.Println("warm: load error:", err)
			os.Exit(1)
		}
		fmt.Println("warm: packages loaded")
	default:
		fmt.Println("unknown command")
		os.Exit(2)
	}
}

func loadEngine(repo, verif string) (*engine.Engine, error) {
	cfg := engine.LoadConfig{
		RepoDir:  repo,
		Patterns: engine.DefaultPatterns,
		Overlay:  overlayFrom(filepath.Join(verif, "harness", "overlay"), repo),
		Init:     engine.DefaultInit,
	}
	return engine.Load(cfg)
}

func runCmd(args []string) {
	fs := flag.NewFlagSet("run", flag.ExitOnError)
	repo := fs.String("repo", "/repo", "")
	verif := fs.String("verif", "/verif", "")
	workers := fs.Int("workers", runtime.NumCPU(), "")
	maxPaths := fs.Int("max-paths", 200000, "")
	budget := fs.Duration("budget", 10*time.Minute, "")
	solver := fs.String("solver", "z3", "")
	tier := fs.String("tier", "quick", "")
	smtlog := fs.String("smtlog", "", "")
	opts := fs.String("opt", "", "k=v,k=v harness options")
	fs.Parse(args)
	t0 := time.Now()
	e, err := loadEngine(*repo, *verif)
	if err != nil {
		fmt.Println("LOAD ERROR:", err)
		os.Exit(3)
	}
	defer e.Cleanup()
	e.Tier = *tier
	for _, kv := range strings.Split(*opts, ",") {
		if i := strings.Index(kv, "="); i > 0 {
			e.Opts[kv[:i]] = kv[i+1:]
		}
	}
	fmt.Printf("loaded in %.1fs\n", time.Since(t0).Seconds())
	for _, name := range fs.Args() {
		var found bool
		for _, sp := range e.SSA {
			if fn := sp.Func(name); fn != nil {
				found = true
				x := &engine.Explorer{E: e, Harness: fn, MaxPaths: *maxPaths, Deadline: time.Now().Add(*budget), Workers: *workers, SolverKind: *solver, TimeoutMs: 30000, Known: map[string]bool{}, SMTLog: *smtlog}
				r := x.Run()
				fmt.Print(r.Summary())
			}
		}
		if !found {
			fmt.Println("harness not found:", name)
		}
	}
}




// replayCmd re-executes the single path recorded in a counterexample file against /repo's current working
// tree and reports whether the assertion is violated again.
func replayCmd(args []string) {
	if len(args) < 1 {
		fmt.Println("usage: gosym replay <cex.json>")
		os.Exit(2)
	}
	var cex struct {
		Property string            `json:"property"`
		AssertID string            `json:"assert_id"`
		Harness  string            `json:"harness"`
		Trace    []engine.Decision `json:"trace"`
		Notes    []string          `json:"notes"`
	}
	if err := readJSON(args[0], &cex); err != nil {
		fmt.Println("cannot read", args[0], err)
		os.Exit(2)
	}
	e, err := loadEngine("/repo", "/verif")
	if e != nil {
		defer e.Cleanup()
	}
	if err != nil {
		fmt.Println("LOAD ERROR:", err)
		os.Exit(3)
	}
	for _, sp := range e.SSA {
		if fn := sp.Func(cex.Harness); fn != nil {
			x := &engine.Explorer{E: e, Harness: fn, MaxPaths: 1, Workers: 1, SolverKind: "z3", TimeoutMs: 30000, Known: map[string]bool{}, Seed: cex.Trace}
			r := x.Run()
			fmt.Print(r.Summary())
			for _, v := range r.Violations {
				if v.AssertID == cex.AssertID {
					fmt.Printf("REPRODUCED property=%s assert=%s on the current tree (witness: %s)\n", cex.Property, cex.AssertID, witnessText(v))
					os.Exit(1)
				}
			}
			fmt.Printf("NOT REPRODUCED property=%s assert=%s on the current tree\n", cex.Property, cex.AssertID)
			os.Exit(0)
		}
	}
	fmt.Println("harness not found:", cex.Harness)
	os.Exit(2)
}
