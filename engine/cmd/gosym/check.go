package main

import (
	"encoding/json"
	"flag"
	"fmt"
	"os"
	"os/exec"
	"path/filepath"
	"runtime"
	"sort"
	"strconv"
	"strings"
	"time"

	"verif/engine"
)

type knownFinding struct {
	ID       string `json:"id"`
	Property string `json:"property"`
	Status   string `json:"status"` // "open" or "fixed"
	What     string `json:"what"`
	Commit   string `json:"commit,omitempty"`
	Demo     string `json:"demo,omitempty"`
}

type harnessCfg struct {
	Solver         string `json:"solver"`
	TimeoutMs      int    `json:"timeout_ms"`
	BudgetQuick    int    `json:"budget_quick_s"`
	BudgetThorough int    `json:"budget_thorough_s"`
	MaxPaths       int    `json:"max_paths"`
	Workers        int    `json:"workers"`
	Tier           string `json:"tier"` // "" both, "thorough" only in thorough
}

type checkCfg struct {
	Harness map[string]harnessCfg `json:"harness"`
	Bounds  map[string][]string   `json:"bounds"`  // property -> stated bounds
	Outside map[string][]string   `json:"outside"` // property -> outside the claim
	Assume  map[string][]string   `json:"assumptions"`
}

func readJSON(path string, v interface{}) error {
	b, err := os.ReadFile(path)
	if err != nil {
		return err
	}
	return json.Unmarshal(b, v)
}

func checkCmd(args []string) {
	fs := flag.NewFlagSet("check", flag.ExitOnError)
	repo := fs.String("repo", "/repo", "")
	verif := fs.String("verif", "/verif", "")
	tier := fs.String("tier", "quick", "")
	workers := fs.Int("workers", runtime.NumCPU(), "")
	only := fs.String("only", "", "run only harnesses whose name contains this")
	fs.Parse(args)
	if fs.NArg() < 1 {
		fmt.Println("usage: gosym check [flags] <property>")
		os.Exit(2)
	}
	prop := fs.Arg(0)
	if t := os.Getenv("VERIF_TIER"); t != "" && *tier == "" {
		*tier = t
	}
	seed := 0
	if s := os.Getenv("VERIF_SEED"); s != "" {
		seed, _ = strconv.Atoi(s)
	}
	start := time.Now()

	var known []knownFinding
	readJSON(filepath.Join(*verif, "known_findings.json"), &known)
	var cfg checkCfg
	readJSON(filepath.Join(*verif, "harness", "config.json"), &cfg)

	inconclusive := []string{}
	e, err := loadEngine(*repo, *verif)
	if e != nil {
		defer e.Cleanup()
	}
	if err != nil {
		fmt.Printf("INCONCLUSIVE property=%s reason=load: %v\n", prop, err)
		writeEvidence(*verif, prop, *tier, seed, nil, nil, cfg, known, []string{"load: " + err.Error()}, time.Since(start), 0, nil)
		os.Exit(3)
	}
	e.Tier = *tier
	loadTime := time.Since(start)

	open := map[string]bool{}
	for _, k := range known {
		if k.Property == prop && k.Status == "open" {
			open[k.ID] = true
		}
	}
	hs := e.Harnesses(prop)
	if len(hs) == 0 {
		fmt.Printf("INCONCLUSIVE property=%s reason=no harness found\n", prop)
		os.Exit(3)
	}
	var results []*engine.Result
	for _, h := range hs {
		if *only != "" && !strings.Contains(h.Name(), *only) {
			continue
		}
		hc := cfg.Harness[h.Name()]
		if hc.Tier == "thorough" && *tier != "thorough" {
			continue
		}
		if hc.Solver == "" {
			hc.Solver = "z3"
		}
		if hc.TimeoutMs == 0 {
			hc.TimeoutMs = 20000
		}
		budget := hc.BudgetQuick
		if budget == 0 {
			budget = 240
		}
		if *tier == "thorough" {
			budget = hc.BudgetThorough
			if budget == 0 {
				budget = 1800
			}
		}
		if hc.MaxPaths == 0 {
			hc.MaxPaths = 2000000
		}
		w := *workers
		if hc.Workers > 0 && hc.Workers < w {
			w = hc.Workers
		}
		x := &engine.Explorer{E: e, Harness: h, MaxPaths: hc.MaxPaths, Deadline: time.Now().Add(time.Duration(budget) * time.Second), Workers: w, SolverKind: hc.Solver, TimeoutMs: hc.TimeoutMs, Known: open}
		// a second solver implementation re-decides a sample of the unsat verdicts (every 25th in the quick tier, every
		// 5th in the thorough tier; VERIF_CROSS_EVERY overrides, 0 switches it off)
		x.CrossKind, x.CrossEvery = "z3-new", 25
		if *tier == "thorough" {
			x.CrossEvery = 5
		}
		if hc.Solver != "z3" {
			x.CrossKind = "z3"
		}
		if v := os.Getenv("VERIF_CROSS_EVERY"); v != "" {
			x.CrossEvery, _ = strconv.Atoi(v)
		}
		r := x.Run()
		results = append(results, r)
		fmt.Print(r.Summary())
	}

	// native lane: the demonstrations of every finding of this property (fixed or open) are run against
	// the real, unmodelled code (real SQLite, real archive/tar, real files)
	nativePassed, nativeFailed := runNative(*verif, *repo, prop)

	// classify
	violations := 0
	knownSeen := map[string]*engine.Violation{}
	cexDir := filepath.Join(*verif, "evidence", "cex")
	os.MkdirAll(cexDir, 0o755)
	// remove stale counterexamples of this property
	if old, _ := filepath.Glob(filepath.Join(cexDir, prop+"-*.json")); old != nil {
		for _, f := range old {
			os.Remove(f)
		}
	}
	var violationLines []string
	nCex := 0
	for _, r := range results {
		for _, v := range r.Violations {
			if v.Known != "" {
				if knownSeen[v.Known] == nil {
					knownSeen[v.Known] = v
				}
				continue
			}
			violations++
			nCex++
			path := filepath.Join(cexDir, fmt.Sprintf("%s-%d.json", prop, nCex))
			writeCex(path, prop, v)
			if nCex <= 10 {
				violationLines = append(violationLines, fmt.Sprintf("VIOLATION property=%s replay=%s assert=%s harness=%s", prop, path, v.AssertID, v.Harness))
			}
		}
		for msg, n := range r.Unsupported {
			inconclusive = append(inconclusive, fmt.Sprintf("%s: %s (x%d)", r.Harness, msg, n))
		}
		if r.Incomplete != "" {
			inconclusive = append(inconclusive, r.Harness+": "+r.Incomplete)
		}
		for id, a := range r.Asserts {
			if a.Unknown > 0 {
				inconclusive = append(inconclusive, fmt.Sprintf("%s: assertion %s undecided by the solver %d times", r.Harness, id, a.Unknown))
			}
		}
		for id, c := range r.Covers {
			if c.Sat == 0 {
				inconclusive = append(inconclusive, fmt.Sprintf("%s: cover goal %s not reached/satisfiable (bound sanity)", r.Harness, id))
			}
		}
		if len(r.Asserts) == 0 {
			inconclusive = append(inconclusive, r.Harness+": no assertion reached (vacuous harness)")
		}
	}
	for _, k := range known {
		if k.Property != prop {
			continue
		}
		if k.Status == "open" {
			if v := knownSeen[k.ID]; v != nil {
				fmt.Printf("KNOWN-FINDING: property=%s %s [%s] witness: %s\n", prop, k.What, k.ID, witnessText(v))
			} else {
				fmt.Printf("note: listed finding %s of %s was not reproduced by this run\n", k.ID, prop)
			}
		}
	}
	for _, nf := range nativeFailed {
		violations++
		fmt.Printf("VIOLATION property=%s replay=%s (native demonstration of a repaired defect fails again against the real code)\n", prop, filepath.Join(*verif, "replay")+"#"+nf)
	}
	for _, l := range violationLines {
		fmt.Println(l)
	}
	sort.Strings(inconclusive)
	nativeCount = len(nativePassed)
	nativeNames = nativePassed
	writeEvidence(*verif, prop, *tier, seed, e, results, cfg, known, inconclusive, time.Since(start), violations, knownSeen)
	fmt.Printf("check %s tier=%s: harnesses=%d violations=%d known=%d inconclusive=%d load=%.1fs wall=%.1fs\n", prop, *tier, len(results), violations, len(knownSeen), len(inconclusive), loadTime.Seconds(), time.Since(start).Seconds())
	if violations > 0 {
		os.Exit(1)
	}
	if len(inconclusive) > 0 {
		for _, m := range inconclusive {
			fmt.Printf("INCONCLUSIVE property=%s reason=%s\n", prop, m)
		}
		os.Exit(3)
	}
	os.Exit(0)
}

var (
	nativeCount int
	nativeNames []string
)

// runNative runs `go test -run 'Test(Finding|Known)_<prop>_'` in /verif/replay (module replaced by the
// repository's working tree). A failing TestFinding_* means a repaired defect is back.
func runNative(verif, repo, prop string) (passed, failed []string) {
	dir := filepath.Join(verif, "replay")
	if _, err := os.Stat(filepath.Join(dir, "go.mod")); err != nil {
		return nil, nil
	}
	pat := fmt.Sprintf("^Test(Finding|Known|Replay)_%s_", prop)
	args := []string{"test", "-count=1", "-json", "-run", pat}
	if prop == "C11" {
		// the demonstrations of repaired data races are only meaningful (and only compiled) under the race detector
		args = append(args, "-race")
	}
	cmd := exec.Command("go", append(args, ".")...)
	cmd.Dir = dir
	cmd.Env = append(os.Environ(), "GOFLAGS=-mod=mod", "GOPROXY=off", "GOSUMDB=off", "GOTOOLCHAIN=local")
	if repo != "/repo" {
		// the replay module points at /repo; other locations are not supported by the native lane
		return nil, nil
	}
	out, _ := cmd.Output()
	for _, line := range strings.Split(string(out), "\n") {
		var ev struct {
			Action string
			Test   string
		}
		if json.Unmarshal([]byte(line), &ev) != nil || ev.Test == "" || strings.Contains(ev.Test, "/") {
			continue
		}
		switch ev.Action {
		case "pass":
			passed = append(passed, ev.Test)
		case "fail":
			failed = append(failed, ev.Test)
		}
	}
	return passed, failed
}

func witnessText(v *engine.Violation) string {
	parts := []string{"assert=" + v.AssertID}
	keys := []string{}
	for k := range v.Strings {
		keys = append(keys, k)
	}
	sort.Strings(keys)
	for _, k := range keys {
		parts = append(parts, fmt.Sprintf("%s=%q", k, v.Strings[k]))
	}
	keys = keys[:0]
	for k := range v.Model {
		if strings.Contains(k, ".") && len(v.Strings) > 0 {
			// string bytes are shown through Strings
			base := strings.TrimPrefix(k, "v_")
			if i := strings.LastIndex(base, "."); i > 0 {
				if _, ok := v.Strings[base[:i]]; ok {
					continue
				}
			}
		}
		keys = append(keys, k)
	}
	sort.Strings(keys)
	for _, k := range keys {
		parts = append(parts, fmt.Sprintf("%s=%d", k, int64(v.Model[k])))
	}
	if v.Panic != "" {
		parts = append(parts, "panic="+v.Panic)
	}
	if len(v.Notes) > 0 {
		parts = append(parts, "choices="+strings.Join(v.Notes, ","))
	}
	s := strings.Join(parts, " ")
	if len(s) > 600 {
		s = s[:600] + "..."
	}
	return s
}

func writeCex(path, prop string, v *engine.Violation) {
	ints := map[string]int64{}
	for k, val := range v.Model {
		ints[k] = int64(val)
	}
	for _, n := range v.Notes {
		if i := strings.Index(n, "="); i > 0 {
			if x, err := strconv.Atoi(n[i+1:]); err == nil {
				ints["choice:"+n[:i]] = int64(x)
			}
		}
	}
	out := map[string]interface{}{
		"property": prop, "assert_id": v.AssertID, "harness": v.Harness,
		"ints": ints, "strings": v.Strings, "notes": v.Notes, "panic": v.Panic, "trace": v.Trace,
	}
	b, _ := json.MarshalIndent(out, "", " ")
	os.WriteFile(path, b, 0o644)
}

func writeEvidence(verif, prop, tier string, seed int, e *engine.Engine, results []*engine.Result, cfg checkCfg, known []knownFinding, inconclusive []string, wall time.Duration, violations int, knownSeen map[string]*engine.Violation) {
	states, transitions := 0, 0
	var samples []interface{}
	harnesses := []map[string]interface{}{}
	var solveS float64
	sat, unsat, unk, errs := 0, 0, 0, 0
	assertsProved, assertsChecked := 0, 0
	funcs := map[string]int{}
	for _, r := range results {
		states += r.Paths
		transitions += r.Queries
		solveS += r.SolveTime.Seconds()
		sat += r.SatQ
		unsat += r.UnsatQ
		unk += r.UnknownQ
		errs += r.SolverErr
		as := map[string]interface{}{}
		for id, a := range r.Asserts {
			as[id] = map[string]int{"reached": a.Checked, "proved_on_path": a.Proved, "violated": a.Violated, "unknown": a.Unknown}
			assertsProved += a.Proved
			assertsChecked += a.Checked
		}
		cs := map[string]interface{}{}
		for id, c := range r.Covers {
			cs[id] = map[string]int{"reached": c.Reached, "sat": c.Sat}
		}
		for k, v := range r.Funcs {
			funcs[k] += v
		}
		harnesses = append(harnesses, map[string]interface{}{
			"name": r.Harness, "paths": r.Paths, "paths_completed": r.Completed, "paths_pruned_infeasible": r.Infeasible,
			"queries": r.Queries, "sat": r.SatQ, "unsat": r.UnsatQ, "unknown": r.UnknownQ, "solver_errors": r.SolverErr,
			"solver_time_s": r.SolveTime.Seconds(), "wall_s": r.Wall.Seconds(), "ssa_instructions_executed": r.Steps,
			"assertions": as, "cover_goals": cs, "aborted_paths": r.Unsupported, "incomplete": r.Incomplete, "notes": r.Notes,
			"known_finding_hits": r.KnownHit,
		})
		for _, s := range r.Samples {
			if len(samples) < 8 {
				samples = append(samples, map[string]interface{}{"harness": r.Harness, "completed_path": s})
			}
		}
		for _, v := range r.Violations {
			if len(samples) < 16 {
				samples = append(samples, map[string]interface{}{"harness": r.Harness, "witness": witnessText(v), "known_finding": v.Known})
			}
		}
	}
	if len(samples) == 0 {
		samples = append(samples, map[string]interface{}{"note": "no path completed"})
	}
	fnList := []string{}
	for k := range funcs {
		fnList = append(fnList, k)
	}
	sort.Strings(fnList)
	kf := []map[string]string{}
	for _, k := range known {
		if k.Property == prop {
			st := k.Status
			if k.Status == "open" {
				if knownSeen != nil && knownSeen[k.ID] != nil {
					st = "open, reproduced in this run"
				} else {
					st = "open, not reproduced in this run"
				}
			}
			kf = append(kf, map[string]string{"id": k.ID, "status": st, "what": k.What})
		}
	}
	var hashes map[string]string
	if e != nil {
		hashes = e.SrcHash
	}
	cov := map[string]interface{}{
		"states":                        max(states, 1),
		"transitions":                   max(transitions, 1),
		"traces_validated_against_impl": nativeCount,
		"native_demonstrations_passed":  nativeNames,
		"samples":                       samples,
		"explanation":                   "states = symbolic paths of the real SSA explored (each path stands for every input satisfying its path condition); transitions = SMT queries discharged; assertions are decided by unsat of the negated assertion under the path condition",
		"harnesses":                     harnesses,
		"solver_queries":                map[string]int{"sat": sat, "unsat": unsat, "unknown": unk, "errors": errs},
		"solver_time_s":                 solveS,
		"assertion_instances_reached":   assertsChecked,
		"assertion_instances_proved":    assertsProved,
		"functions_encoded":             fnList,
		"bounds":                        cfg.Bounds[prop],
		"outside_the_claim":             cfg.Outside[prop],
		"inconclusive":                  inconclusive,
		"known_findings":                kf,
		"repo_source_hashes":            hashes,
		"exhaustive":                    false,
	}
	ev := map[string]interface{}{
		"property_id": prop,
		"tier":        tier,
		"seed":        seed,
		"level":       "model_checking",
		"coverage":    cov,
		"assumptions": cfg.Assume[prop],
		"wall_s":      wall.Seconds(),
		"violations":  violations,
	}
	os.MkdirAll(filepath.Join(verif, "evidence"), 0o755)
	b, _ := json.MarshalIndent(ev, "", " ")
	os.WriteFile(filepath.Join(verif, "evidence", prop+".json"), b, 0o644)
}
