package engine

import (
	"fmt"
	"math/bits"
	"sort"
	"strings"
)

// Sort kinds
const (
	KBool = iota
	KBV
	KFP // float64 only
)

type Sort struct {
	K int
	W int
}

var BoolSort = Sort{KBool, 0}
var FPSort = Sort{KFP, 64}

func BV(w int) Sort { return Sort{KBV, w} }

func (s Sort) String() string {
	switch s.K {
	case KBool:
		return "Bool"
	case KBV:
		return fmt.Sprintf("(_ BitVec %d)", s.W)
	default:
		return "(_ FloatingPoint 11 53)"
	}
}

// Term is an immutable SMT term. Constants are folded at construction.
type Term struct {
	Op   string
	S    Sort
	Args []*Term
	C    uint64 // constant value for BV (masked) / 0,1 for Bool ; float bits for FP const
	Name string // for vars
	P1   int    // extract hi / ext amount
	P2   int    // extract lo
	smt  string
	// small-domain hint for vars: nil or allowed constant values (used for fast folding)
	Dom []uint64
	Lo, Hi int64 // declared signed range of a harness variable (HasB)
	HasB bool
	Coef []uint64 // for Op=="lin": coefficient per Arg; C is the constant summand
}

func mask(w int) uint64 {
	if w >= 64 {
		return ^uint64(0)
	}
	return (uint64(1) << uint(w)) - 1
}

func (t *Term) IsConst() bool { return t.Op == "const" }

func (t *Term) IsTrue() bool  { return t.Op == "const" && t.S.K == KBool && t.C == 1 }
func (t *Term) IsFalse() bool { return t.Op == "const" && t.S.K == KBool && t.C == 0 }

// Signed value of BV const
func (t *Term) Int64() int64 {
	w := t.S.W
	v := t.C
	if w < 64 && v&(uint64(1)<<uint(w-1)) != 0 {
		v |= ^mask(w)
	}
	return int64(v)
}

var (
	TrueT  = &Term{Op: "const", S: BoolSort, C: 1}
	FalseT = &Term{Op: "const", S: BoolSort, C: 0}
)

func BoolC(b bool) *Term {
	if b {
		return TrueT
	}
	return FalseT
}

func BVC(w int, v uint64) *Term {
	return &Term{Op: "const", S: BV(w), C: v & mask(w)}
}

func BVCi(w int, v int64) *Term { return BVC(w, uint64(v)) }

func Var(name string, s Sort) *Term {
	return &Term{Op: "var", S: s, Name: name}
}

func (t *Term) String() string { return t.SMT() }

func (t *Term) SMT() string {
	if t.smt != "" {
		return t.smt
	}
	var s string
	switch t.Op {
	case "const":
		switch t.S.K {
		case KBool:
			if t.C == 1 {
				s = "true"
			} else {
				s = "false"
			}
		case KBV:
			if t.S.W%4 == 0 {
				s = fmt.Sprintf("#x%0*x", t.S.W/4, t.C)
			} else {
				s = fmt.Sprintf("#b%0*b", t.S.W, t.C)
			}
		case KFP:
			s = fmt.Sprintf("((_ to_fp 11 53) #x%016x)", t.C)
		}
	case "var":
		s = t.Name
	case "extract":
		s = fmt.Sprintf("((_ extract %d %d) %s)", t.P1, t.P2, t.Args[0].SMT())
	case "zext":
		s = fmt.Sprintf("((_ zero_extend %d) %s)", t.P1, t.Args[0].SMT())
	case "sext":
		s = fmt.Sprintf("((_ sign_extend %d) %s)", t.P1, t.Args[0].SMT())
	case "sbv2fp":
		s = fmt.Sprintf("((_ to_fp 11 53) RNE %s)", t.Args[0].SMT())
	case "ubv2fp":
		s = fmt.Sprintf("((_ to_fp_unsigned 11 53) RNE %s)", t.Args[0].SMT())
	case "fp2sbv":
		s = fmt.Sprintf("((_ fp.to_sbv %d) RTZ %s)", t.S.W, t.Args[0].SMT())
	case "fp2ubv":
		s = fmt.Sprintf("((_ fp.to_ubv %d) RTZ %s)", t.S.W, t.Args[0].SMT())
	case "fp.ceil":
		s = fmt.Sprintf("(fp.roundToIntegral RTP %s)", t.Args[0].SMT())
	case "fp.floor":
		s = fmt.Sprintf("(fp.roundToIntegral RTN %s)", t.Args[0].SMT())
	case "fp.trunc":
		s = fmt.Sprintf("(fp.roundToIntegral RTZ %s)", t.Args[0].SMT())
	case "fp.round":
		s = fmt.Sprintf("(fp.roundToIntegral RNA %s)", t.Args[0].SMT())
	case "lin":
		var sb strings.Builder
		n := len(t.Args)
		if t.C != 0 {
			n++
		}
		if n > 1 {
			sb.WriteString("(bvadd")
		}
		for i, a := range t.Args {
			if n > 1 {
				sb.WriteByte(' ')
			}
			if t.Coef[i] == 1 {
				sb.WriteString(a.SMT())
			} else {
				sb.WriteString("(bvmul ")
				sb.WriteString(BVC(t.S.W, t.Coef[i]).SMT())
				sb.WriteByte(' ')
				sb.WriteString(a.SMT())
				sb.WriteByte(')')
			}
		}
		if t.C != 0 {
			sb.WriteByte(' ')
			sb.WriteString(BVC(t.S.W, t.C).SMT())
		}
		if n > 1 {
			sb.WriteByte(')')
		}
		s = sb.String()
	case "fp.add", "fp.sub", "fp.mul", "fp.div":
		s = fmt.Sprintf("(%s RNE %s %s)", t.Op, t.Args[0].SMT(), t.Args[1].SMT())
	default:
		var sb strings.Builder
		sb.WriteByte('(')
		sb.WriteString(t.Op)
		for _, a := range t.Args {
			sb.WriteByte(' ')
			sb.WriteString(a.SMT())
		}
		sb.WriteByte(')')
		s = sb.String()
	}
	t.smt = s
	return s
}

func same(a, b *Term) bool {
	if a == b {
		return true
	}
	if a.Op == "const" && b.Op == "const" {
		return a.S == b.S && a.C == b.C
	}
	if a.Op == "var" && b.Op == "var" {
		return a.Name == b.Name
	}
	if a.Op != b.Op || len(a.Args) != len(b.Args) || a.S != b.S || a.P1 != b.P1 || a.P2 != b.P2 {
		return false
	}
	if a.Op == "lin" {
		if a.C != b.C {
			return false
		}
		for i := range a.Coef {
			if a.Coef[i] != b.Coef[i] {
				return false
			}
		}
	}
	// cheap structural check via smt text if already computed
	if a.smt != "" && b.smt != "" {
		return a.smt == b.smt
	}
	for i := range a.Args {
		if !same(a.Args[i], b.Args[i]) {
			return false
		}
	}
	return true
}

// ---------- Bool ops ----------

func Not(a *Term) *Term {
	if a.IsConst() {
		return BoolC(a.C == 0)
	}
	if a.Op == "not" {
		return a.Args[0]
	}
	return &Term{Op: "not", S: BoolSort, Args: []*Term{a}}
}

func And(xs ...*Term) *Term {
	var out []*Term
	for _, x := range xs {
		if x.IsFalse() {
			return FalseT
		}
		if x.IsTrue() {
			continue
		}
		if x.Op == "and" {
			out = append(out, x.Args...)
		} else {
			out = append(out, x)
		}
	}
	if len(out) == 0 {
		return TrueT
	}
	if len(out) == 1 {
		return out[0]
	}
	return &Term{Op: "and", S: BoolSort, Args: out}
}

func Or(xs ...*Term) *Term {
	var out []*Term
	for _, x := range xs {
		if x.IsTrue() {
			return TrueT
		}
		if x.IsFalse() {
			continue
		}
		if x.Op == "or" {
			out = append(out, x.Args...)
		} else {
			out = append(out, x)
		}
	}
	if len(out) == 0 {
		return FalseT
	}
	if len(out) == 1 {
		return out[0]
	}
	return &Term{Op: "or", S: BoolSort, Args: out}
}

func Implies(a, b *Term) *Term { return Or(Not(a), b) }

func Ite(c, a, b *Term) *Term {
	if c.IsTrue() {
		return a
	}
	if c.IsFalse() {
		return b
	}
	if same(a, b) {
		return a
	}
	if a.S.K == KBool {
		if a.IsTrue() && b.IsFalse() {
			return c
		}
		if a.IsFalse() && b.IsTrue() {
			return Not(c)
		}
	}
	return &Term{Op: "ite", S: a.S, Args: []*Term{c, a, b}}
}

func inDom(t *Term, v uint64) bool {
	if t.Dom == nil {
		return true
	}
	for _, d := range t.Dom {
		if d == v {
			return true
		}
	}
	return false
}

func Eq(a, b *Term) *Term {
	if a.S != b.S {
		panic(fmt.Sprintf("Eq sort mismatch %v %v: %s %s", a.S, b.S, a.SMT(), b.SMT()))
	}
	if a.IsConst() && b.IsConst() {
		return BoolC(a.C == b.C)
	}
	if same(a, b) && a.S.K != KFP {
		return TrueT
	}
	// domain folding
	if a.Op == "var" && b.IsConst() && !inDom(a, b.C) {
		return FalseT
	}
	if b.Op == "var" && a.IsConst() && !inDom(b, a.C) {
		return FalseT
	}
	if a.S.K == KBool {
		if a.IsConst() {
			if a.C == 1 {
				return b
			}
			return Not(b)
		}
		if b.IsConst() {
			if b.C == 1 {
				return a
			}
			return Not(a)
		}
	}
	if a.S.K == KFP {
		return &Term{Op: "fp.eq", S: BoolSort, Args: []*Term{a, b}}
	}
	if a.S.K == KBV && (a.Op == "lin" || b.Op == "lin") {
		d := linCombine(a, 1, b, mask(a.S.W))
		if d.IsConst() {
			return BoolC(d.C == 0)
		}
	}
	r := &Term{Op: "=", S: BoolSort, Args: []*Term{a, b}}
	if a.S.K == KBV && a.S.W <= 8 && (a.IsConst() || b.IsConst()) {
		if f, ok := domFold(r); ok {
			return f
		}
	}
	return r
}

func Ne(a, b *Term) *Term { return Not(Eq(a, b)) }

// ---------- BV ops ----------

func sx(v uint64, w int) int64 {
	if w < 64 && v&(uint64(1)<<uint(w-1)) != 0 {
		v |= ^mask(w)
	}
	return int64(v)
}

func bin(op string, a, b *Term) *Term {
	if a.S != b.S {
		panic(fmt.Sprintf("%s sort mismatch %v %v: %s | %s", op, a.S, b.S, a.SMT(), b.SMT()))
	}
	w := a.S.W
	if a.IsConst() && b.IsConst() {
		x, y := a.C, b.C
		var r uint64
		ok := true
		switch op {
		case "bvadd":
			r = x + y
		case "bvsub":
			r = x - y
		case "bvmul":
			r = x * y
		case "bvand":
			r = x & y
		case "bvor":
			r = x | y
		case "bvxor":
			r = x ^ y
		case "bvudiv":
			if y == 0 {
				r = mask(w)
			} else {
				r = x / y
			}
		case "bvurem":
			if y == 0 {
				r = x
			} else {
				r = x % y
			}
		case "bvsdiv":
			if y == 0 {
				ok = false
			} else {
				sxv, syv := sx(x, w), sx(y, w)
				if syv == -1 {
					r = uint64(-sxv)
				} else {
					r = uint64(sxv / syv)
				}
			}
		case "bvsrem":
			if y == 0 {
				ok = false
			} else {
				sxv, syv := sx(x, w), sx(y, w)
				if syv == -1 {
					r = 0
				} else {
					r = uint64(sxv % syv)
				}
			}
		case "bvshl":
			if y >= uint64(w) {
				r = 0
			} else {
				r = x << y
			}
		case "bvlshr":
			if y >= uint64(w) {
				r = 0
			} else {
				r = x >> y
			}
		case "bvashr":
			s := sx(x, w)
			if y >= uint64(w) {
				if s < 0 {
					r = ^uint64(0)
				} else {
					r = 0
				}
			} else {
				r = uint64(s >> y)
			}
		default:
			ok = false
		}
		if ok {
			return BVC(w, r)
		}
	}
	// identities
	switch op {
	case "bvadd":
		if a.IsConst() && a.C == 0 {
			return b
		}
		if b.IsConst() && b.C == 0 {
			return a
		}
	case "bvsub":
		if b.IsConst() && b.C == 0 {
			return a
		}
		if same(a, b) {
			return BVC(w, 0)
		}
	case "bvmul":
		if a.IsConst() && a.C == 1 {
			return b
		}
		if b.IsConst() && b.C == 1 {
			return a
		}
		if (a.IsConst() && a.C == 0) || (b.IsConst() && b.C == 0) {
			return BVC(w, 0)
		}
	case "bvand":
		if (a.IsConst() && a.C == 0) || (b.IsConst() && b.C == 0) {
			return BVC(w, 0)
		}
		if a.IsConst() && a.C == mask(w) {
			return b
		}
		if b.IsConst() && b.C == mask(w) {
			return a
		}
	case "bvor", "bvxor":
		if a.IsConst() && a.C == 0 {
			return b
		}
		if b.IsConst() && b.C == 0 {
			return a
		}
	case "bvshl", "bvlshr", "bvashr":
		if b.IsConst() && b.C == 0 {
			return a
		}
	case "bvsdiv", "bvudiv":
		if b.IsConst() && b.C == 1 {
			return a
		}
	case "bvsrem", "bvurem":
		if b.IsConst() && b.C == 1 {
			return BVC(w, 0)
		}
	}
	return &Term{Op: op, S: a.S, Args: []*Term{a, b}}
}

func Add(a, b *Term) *Term {
	if a.IsConst() && b.IsConst() {
		return bin("bvadd", a, b)
	}
	return linCombine(a, 1, b, 1)
}
func Sub(a, b *Term) *Term {
	if a.IsConst() && b.IsConst() {
		return bin("bvsub", a, b)
	}
	return linCombine(a, 1, b, mask(a.S.W))
}
func Mul(a, b *Term) *Term {
	if a.S != b.S {
		panic("bvmul sort mismatch")
	}
	if a.IsConst() && b.IsConst() {
		return bin("bvmul", a, b)
	}
	if a.IsConst() {
		return linScale(b, a.C)
	}
	if b.IsConst() {
		return linScale(a, b.C)
	}
	return bin("bvmul", a, b)
}

type linPart struct {
	t *Term
	c uint64
}

func linParts(t *Term, k uint64, w int, out []linPart, c *uint64) []linPart {
	m := mask(w)
	switch {
	case t.IsConst():
		*c = (*c + k*t.C) & m
	case t.Op == "lin":
		*c = (*c + k*t.C) & m
		for i, a := range t.Args {
			out = append(out, linPart{a, (k * t.Coef[i]) & m})
		}
	default:
		out = append(out, linPart{t, k & m})
	}
	return out
}

func linBuild(parts []linPart, c uint64, w int) *Term {
	m := mask(w)
	// merge equal atoms (canonical order by SMT text)
	for i := range parts {
		parts[i].t.SMT()
	}
	sort.SliceStable(parts, func(i, j int) bool { return parts[i].t.smt < parts[j].t.smt })
	var atoms []*Term
	var coefs []uint64
	for _, p := range parts {
		n := len(atoms)
		if n > 0 && atoms[n-1].smt == p.t.smt {
			coefs[n-1] = (coefs[n-1] + p.c) & m
			continue
		}
		atoms = append(atoms, p.t)
		coefs = append(coefs, p.c&m)
	}
	var a2 []*Term
	var c2 []uint64
	for i := range atoms {
		if coefs[i] != 0 {
			a2 = append(a2, atoms[i])
			c2 = append(c2, coefs[i])
		}
	}
	if len(a2) == 0 {
		return BVC(w, c)
	}
	if len(a2) == 1 && c2[0] == 1 && c&m == 0 {
		return a2[0]
	}
	return &Term{Op: "lin", S: BV(w), Args: a2, Coef: c2, C: c & m}
}

func linCombine(a *Term, ka uint64, b *Term, kb uint64) *Term {
	if a.S != b.S {
		panic(fmt.Sprintf("lin sort mismatch %v %v: %s | %s", a.S, b.S, a.SMT(), b.SMT()))
	}
	w := a.S.W
	var c uint64
	parts := linParts(a, ka, w, nil, &c)
	parts = linParts(b, kb, w, parts, &c)
	return linBuild(parts, c, w)
}

func linScale(a *Term, k uint64) *Term {
	w := a.S.W
	var c uint64
	parts := linParts(a, k, w, nil, &c)
	return linBuild(parts, c, w)
}
func BAnd(a, b *Term) *Term { return bin("bvand", a, b) }
func BOr(a, b *Term) *Term  { return bin("bvor", a, b) }
func BXor(a, b *Term) *Term { return bin("bvxor", a, b) }
func SDiv(a, b *Term) *Term {
	if b.IsConst() && sx(b.C, b.S.W) > 1 {
		if r, ok := splitDiv(a, b.C, func(t *Term) *Term { return bin("bvsdiv", t, b) }); ok {
			return r
		}
	}
	return bin("bvsdiv", a, b)
}
func UDiv(a, b *Term) *Term {
	if b.IsConst() && b.C != 0 && b.C&(b.C-1) == 0 && !a.IsConst() {
		return LShr(a, BVC(a.S.W, uint64(log2(b.C))))
	}
	if b.IsConst() && sx(b.C, b.S.W) > 1 {
		if r, ok := splitDiv(a, b.C, func(t *Term) *Term { return bin("bvudiv", t, b) }); ok {
			return r
		}
	}
	return bin("bvudiv", a, b)
}
func SRem(a, b *Term) *Term { return bin("bvsrem", a, b) }
func URem(a, b *Term) *Term {
	if b.IsConst() && b.C != 0 && b.C&(b.C-1) == 0 && !a.IsConst() {
		return bin("bvand", a, BVC(a.S.W, b.C-1))
	}
	return bin("bvurem", a, b)
}
func Shl(a, b *Term) *Term {
	if b.IsConst() && !a.IsConst() {
		if b.C >= uint64(a.S.W) {
			return BVC(a.S.W, 0)
		}
		return linScale(a, uint64(1)<<b.C)
	}
	return bin("bvshl", a, b)
}
func LShr(a, b *Term) *Term {
	if b.IsConst() && b.C > 0 && b.C < 62 {
		if r, ok := splitDiv(a, uint64(1)<<b.C, func(t *Term) *Term { return bin("bvlshr", t, b) }); ok {
			return r
		}
	}
	return bin("bvlshr", a, b)
}
func AShr(a, b *Term) *Term { return bin("bvashr", a, b) }

func BNot(a *Term) *Term {
	if a.IsConst() {
		return BVC(a.S.W, ^a.C)
	}
	return &Term{Op: "bvnot", S: a.S, Args: []*Term{a}}
}

func Neg(a *Term) *Term {
	if a.IsConst() {
		return BVC(a.S.W, -a.C)
	}
	return linScale(a, mask(a.S.W))
}

func cmp(op string, a, b *Term) *Term {
	if a.S != b.S {
		panic(fmt.Sprintf("%s sort mismatch %v %v", op, a.S, b.S))
	}
	w := a.S.W
	if a.IsConst() && b.IsConst() {
		switch op {
		case "bvult":
			return BoolC(a.C < b.C)
		case "bvule":
			return BoolC(a.C <= b.C)
		case "bvslt":
			return BoolC(sx(a.C, w) < sx(b.C, w))
		case "bvsle":
			return BoolC(sx(a.C, w) <= sx(b.C, w))
		}
	}
	if same(a, b) {
		return BoolC(op == "bvule" || op == "bvsle")
	}
	// domain folding for var vs const
	if a.Op == "var" && a.Dom != nil && b.IsConst() {
		all, none := true, true
		for _, d := range a.Dom {
			var r bool
			switch op {
			case "bvult":
				r = d < b.C
			case "bvule":
				r = d <= b.C
			case "bvslt":
				r = sx(d, w) < sx(b.C, w)
			case "bvsle":
				r = sx(d, w) <= sx(b.C, w)
			}
			if r {
				none = false
			} else {
				all = false
			}
		}
		if all {
			return TrueT
		}
		if none {
			return FalseT
		}
	}
	if b.Op == "var" && b.Dom != nil && a.IsConst() {
		all, none := true, true
		for _, d := range b.Dom {
			var r bool
			switch op {
			case "bvult":
				r = a.C < d
			case "bvule":
				r = a.C <= d
			case "bvslt":
				r = sx(a.C, w) < sx(d, w)
			case "bvsle":
				r = sx(a.C, w) <= sx(d, w)
			}
			if r {
				none = false
			} else {
				all = false
			}
		}
		if all {
			return TrueT
		}
		if none {
			return FalseT
		}
	}
	r := &Term{Op: op, S: BoolSort, Args: []*Term{a, b}}
	if w <= 8 && (a.IsConst() || b.IsConst()) {
		if f, ok := domFold(r); ok {
			return f
		}
	}
	return r
}

func ULt(a, b *Term) *Term { return cmp("bvult", a, b) }
func ULe(a, b *Term) *Term { return cmp("bvule", a, b) }
func SLt(a, b *Term) *Term { return cmp("bvslt", a, b) }
func SLe(a, b *Term) *Term { return cmp("bvsle", a, b) }

func Extract(a *Term, hi, lo int) *Term {
	if lo == 0 && hi == a.S.W-1 {
		return a
	}
	w := hi - lo + 1
	if a.IsConst() {
		return BVC(w, a.C>>uint(lo))
	}
	return &Term{Op: "extract", S: BV(w), Args: []*Term{a}, P1: hi, P2: lo}
}

func ZExt(a *Term, to int) *Term {
	if to == a.S.W {
		return a
	}
	if a.IsConst() {
		return BVC(to, a.C)
	}
	return &Term{Op: "zext", S: BV(to), Args: []*Term{a}, P1: to - a.S.W}
}

func SExt(a *Term, to int) *Term {
	if to == a.S.W {
		return a
	}
	if a.IsConst() {
		return BVC(to, uint64(sx(a.C, a.S.W)))
	}
	return &Term{Op: "sext", S: BV(to), Args: []*Term{a}, P1: to - a.S.W}
}

// Resize converts between widths given signedness of the source.
func Resize(a *Term, to int, srcSigned bool) *Term {
	if to == a.S.W {
		return a
	}
	if to < a.S.W {
		return Extract(a, to-1, 0)
	}
	if srcSigned {
		return SExt(a, to)
	}
	return ZExt(a, to)
}

// ---------- FP (float64) ----------

func FPConst(bitsv uint64) *Term { return &Term{Op: "const", S: FPSort, C: bitsv} }

func FPUn(op string, a *Term) *Term { return &Term{Op: op, S: FPSort, Args: []*Term{a}} }
func FPBin(op string, a, b *Term) *Term {
	return &Term{Op: op, S: FPSort, Args: []*Term{a, b}}
}
func FPCmp(op string, a, b *Term) *Term {
	return &Term{Op: op, S: BoolSort, Args: []*Term{a, b}}
}
func SBV2FP(a *Term) *Term { return &Term{Op: "sbv2fp", S: FPSort, Args: []*Term{a}} }
func UBV2FP(a *Term) *Term { return &Term{Op: "ubv2fp", S: FPSort, Args: []*Term{a}} }
func FP2SBV(a *Term, w int) *Term {
	return &Term{Op: "fp2sbv", S: BV(w), Args: []*Term{a}}
}
func FP2UBV(a *Term, w int) *Term {
	return &Term{Op: "fp2ubv", S: BV(w), Args: []*Term{a}}
}

// CollectVars gathers the variables in t.
func CollectVars(t *Term, seen map[string]*Term) {
	if t.Op == "var" {
		seen[t.Name] = t
		return
	}
	for _, a := range t.Args {
		CollectVars(a, seen)
	}
}

func log2(v uint64) int { return bits.Len64(v) - 1 }
