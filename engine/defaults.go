package engine

// Packages executed from source (everything else is type-checked from export data and needs a model).
var DefaultPatterns = []string{
	"github.com/pojntfx/stfs/pkg/fs",
	"github.com/pojntfx/stfs/pkg/operations",
	"github.com/pojntfx/stfs/pkg/recovery",
	"github.com/pojntfx/stfs/pkg/persisters",
	"github.com/pojntfx/stfs/pkg/inventory",
	"github.com/pojntfx/stfs/pkg/tape",
	"github.com/pojntfx/stfs/pkg/signature",
	"github.com/pojntfx/stfs/pkg/encryption",
	"github.com/pojntfx/stfs/pkg/compression",
	"github.com/pojntfx/stfs/pkg/config",
	"github.com/pojntfx/stfs/pkg/cache",
	"github.com/pojntfx/stfs/pkg/logging",
	"github.com/pojntfx/stfs/internal/converters",
	"github.com/pojntfx/stfs/internal/suffix",
	"github.com/pojntfx/stfs/internal/pathext",
	"github.com/pojntfx/stfs/internal/tarext",
	"github.com/pojntfx/stfs/internal/ioext",
	"github.com/pojntfx/stfs/internal/records",
	"github.com/pojntfx/stfs/internal/persisters",
	"github.com/pojntfx/stfs/internal/db/sqlite/models/metadata",
	ModelPkg,
	"github.com/mattetti/filebuffer",
	"github.com/spf13/afero",
	"archive/tar",
	"strings",
	"path",
	"path/filepath",
	"internal/filepathlite",
	"internal/stringslite",
	"unicode/utf8",
	"bytes",
	"io",
	"io/fs",
	"io/ioutil",
	"errors",
	"bufio",
	"sort",
}

var DefaultInit = initList()

func initList() []string {
	out := []string{"io", "io/fs", "io/ioutil", "archive/tar", "unicode/utf8", "strings"}
	for _, p := range DefaultPatterns {
		if len(p) > 24 && p[:24] == "github.com/pojntfx/stfs/" {
			out = append(out, p)
		}
	}
	return out
}
