package engine

// Concrete evaluation of terms under an assignment (used for small-domain folding).

type evalEnv map[string]uint64

func evalTerm(t *Term, env evalEnv) (uint64, bool) {
	switch t.Op {
	case "const":
		return t.C, true
	case "var":
		v, ok := env[t.Name]
		return v, ok
	}
	if t.S.K == KFP {
		return 0, false
	}
	args := make([]uint64, len(t.Args))
	for i, a := range t.Args {
		if a.S.K == KFP {
			return 0, false
		}
		v, ok := evalTerm(a, env)
		if !ok {
			return 0, false
		}
		args[i] = v
	}
	b2u := func(b bool) uint64 {
		if b {
			return 1
		}
		return 0
	}
	w := t.S.W
	aw := 0
	if len(t.Args) > 0 {
		aw = t.Args[0].S.W
	}
	switch t.Op {
	case "not":
		return b2u(args[0] == 0), true
	case "and":
		for _, a := range args {
			if a == 0 {
				return 0, true
			}
		}
		return 1, true
	case "or":
		for _, a := range args {
			if a != 0 {
				return 1, true
			}
		}
		return 0, true
	case "ite":
		if args[0] != 0 {
			return args[1], true
		}
		return args[2], true
	case "=":
		return b2u(args[0] == args[1]), true
	case "bvult":
		return b2u(args[0] < args[1]), true
	case "bvule":
		return b2u(args[0] <= args[1]), true
	case "bvslt":
		return b2u(sx(args[0], aw) < sx(args[1], aw)), true
	case "bvsle":
		return b2u(sx(args[0], aw) <= sx(args[1], aw)), true
	case "lin":
		r := t.C
		for i := range args {
			r += t.Coef[i] * args[i]
		}
		return r & mask(w), true
	case "extract":
		return (args[0] >> uint(t.P2)) & mask(w), true
	case "zext":
		return args[0], true
	case "sext":
		return uint64(sx(args[0], aw)) & mask(w), true
	case "bvnot":
		return ^args[0] & mask(w), true
	case "bvneg":
		return -args[0] & mask(w), true
	case "bvadd", "bvsub", "bvmul", "bvand", "bvor", "bvxor", "bvudiv", "bvurem", "bvsdiv", "bvsrem", "bvshl", "bvlshr", "bvashr":
		r := bin(t.Op, BVC(w, args[0]), BVC(w, args[1]))
		if r.IsConst() {
			return r.C, true
		}
		return 0, false
	}
	return 0, false
}

// domFold evaluates a Boolean/BV term that mentions exactly one small-domain variable for every value
// of the domain; if all results agree the term is that constant.
func domFold(t *Term) (*Term, bool) {
	var v *Term
	count := 0
	var walk func(x *Term, depth int) bool
	walk = func(x *Term, depth int) bool {
		if depth > 10 {
			return false
		}
		if x.Op == "var" {
			if x.Dom == nil || len(x.Dom) > 16 {
				return false
			}
			if v == nil || v.Name != x.Name {
				if v != nil {
					return false
				}
				v = x
			}
			count++
			return true
		}
		for _, a := range x.Args {
			if !walk(a, depth+1) {
				return false
			}
		}
		return true
	}
	if !walk(t, 0) || v == nil {
		return nil, false
	}
	var res uint64
	for i, d := range v.Dom {
		r, ok := evalTerm(t, evalEnv{v.Name: d})
		if !ok {
			return nil, false
		}
		if i == 0 {
			res = r
		} else if r != res {
			return nil, false
		}
	}
	if t.S.K == KBool {
		return BoolC(res == 1), true
	}
	return BVC(t.S.W, res), true
}
