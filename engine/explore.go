package engine

import (
	"fmt"
	"os"
	"sort"
	"strings"
	"sync"
	"time"

	"golang.org/x/tools/go/ssa"
)

type Decision struct {
	Val    int
	Forced bool // only one direction feasible; no solver level
	Free   bool // free choice among N (no constraint)
	Aux    uint64
}

// Violation is a satisfiable negated assertion with its model.
type Violation struct {
	AssertID string
	Harness  string
	Model    map[string]uint64 // harness variable -> value
	Strings  map[string]string // reconstructed string variables
	Notes    []string
	Known    string // id of the known-finding region the path is in ("" if none)
	Panic    string
	Trace    []Decision
}

type AssertStat struct {
	Checked   int // times reached
	Proved    int // unsat of negation (or constant true)
	Violated  int
	Unknown   int
	Reachable bool
}

type CoverStat struct {
	Reached int
	Sat     int
}

type Result struct {
	Harness     string
	Paths       int
	Completed   int
	Infeasible  int
	Unsupported map[string]int
	Unwind      int
	BoundHit    int
	Panics      int
	Asserts     map[string]*AssertStat
	Covers      map[string]*CoverStat
	Violations  []*Violation
	KnownHit    map[string]int
	Samples     []map[string]interface{}
	Queries     int
	SatQ        int
	UnsatQ      int
	UnknownQ    int
	SolverErr   int
	SolveTime   time.Duration
	Wall        time.Duration
	Steps       int64
	Incomplete  string // non-empty if exploration was cut short
	Funcs       map[string]int
	Notes       map[string]int
}

type Explorer struct {
	E        *Engine
	Harness  *ssa.Function
	Known    map[string]bool // open known-finding ids
	MaxPaths int
	Deadline time.Time
	Workers  int
	SolverKind string
	SMTLog     string
	Seed       []Decision // if set, exploration starts from this decision prefix (replay of one path)
	TimeoutMs  int
	CrossKind  string // second solver implementation ("" = none)
	CrossEvery int    // re-decide every n-th unsat assertion verdict with it

	mu      sync.Mutex
	work    [][]Decision
	active  int
	cond    *sync.Cond
	res     *Result
	knownDone map[string]bool
	stopAll bool
	nViol   int
}

func (x *Explorer) expired() bool {
	return !x.Deadline.IsZero() && time.Now().After(x.Deadline)
}

type worker struct {
	s          *Solver
	cross      *Solver // second solver implementation for cross-checking unsat verdicts (nil = off)
	nUnsat     int
	levelStart []int
	count      int
	prevTrace  []Decision
	rq         int
}

// Path is one execution of the harness.
type Path struct {
	E *Engine
	X *Explorer
	w *worker

	prefix []Decision
	trace  []Decision
	nDec   int
	nLev   int
	nEmit  int
	pc     []*Term

	globals map[*ssa.Global]*Object
	nextObj int
	depth   int
	stack   []string
	steps   int
	curFrame *frame
	lenient bool
	onStore func(*Pointer)
	onLoad  func(*Pointer)
	goroutines int
	curThread  int

	vars     []*Term
	varSeen  map[string]bool
	strVars  map[string][]*Term
	fresh    map[string]int
	notes    []string
	known    string
	concCnt  int
	sample   map[string]interface{}
	fpLemma  map[string]bool
	ghost    map[string]Value
	funcs    map[string]int
	unwind   int
	unwindAssert string
	rs       *raceState
	quick    int
	unknowns int
}

func (p *Path) inModel(fn *ssa.Function) bool { return false }

func (p *Path) unwindBound() int {
	if p.unwind > 0 {
		return p.unwind
	}
	return p.E.Unwind
}

func (p *Path) Fresh(tag string, s Sort) *Term {
	if p.fresh == nil {
		p.fresh = map[string]int{}
	}
	n := p.fresh[tag]
	p.fresh[tag] = n + 1
	name := sanitize(tag)
	if n > 0 {
		name = fmt.Sprintf("%s_%d", name, n)
	}
	t := Var("v_"+name, s)
	if !p.varSeen[t.Name] {
		p.varSeen[t.Name] = true
		p.vars = append(p.vars, t)
	}
	return t
}

func sanitize(s string) string {
	var sb strings.Builder
	for _, c := range s {
		if (c >= 'a' && c <= 'z') || (c >= 'A' && c <= 'Z') || (c >= '0' && c <= '9') || c == '_' || c == '.' {
			sb.WriteRune(c)
		} else {
			sb.WriteByte('_')
		}
	}
	return sb.String()
}

func (p *Path) emit(t *Term) {
	if t.IsTrue() {
		return
	}
	p.pc = append(p.pc, t)
	if p.w == nil {
		return
	}
	idx := p.nEmit
	p.nEmit++
	if idx >= p.w.count {
		p.w.s.Assert(t)
		p.w.count++
	}
}

func (p *Path) pushLevel() {
	lvl := p.nLev
	p.nLev++
	if lvl >= len(p.w.levelStart) {
		p.w.s.Push()
		p.w.levelStart = append(p.w.levelStart, p.w.count)
	}
}

func (p *Path) record(d Decision) {
	p.trace = append(p.trace, d)
	p.nDec++
}

func (p *Path) enqueue(alt Decision) {
	pre := make([]Decision, len(p.trace)+1)
	copy(pre, p.trace)
	pre[len(p.trace)] = alt
	x := p.X
	x.mu.Lock()
	x.work = append(x.work, pre)
	x.mu.Unlock()
	x.cond.Signal()
}

// Branch decides a symbolic condition, forking if both sides are feasible.
func (p *Path) Branch(c *Term) bool {
	if c.IsConst() {
		return c.C == 1
	}
	return p.branchAux(c, 0, false)
}

func (p *Path) branchAux(c *Term, aux uint64, knownTrueSat bool) bool {
	if c.IsConst() {
		return c.C == 1
	}
	if v, ok := quickDecide(c, 0); ok {
		p.quick++
		return v
	}
	c = normCmp(c)
	if c.IsConst() {
		return c.C == 1
	}
	if p.w == nil {
		p.unsupported("symbolic branch outside exploration")
	}
	i := p.nDec
	var d Decision
	if i < len(p.prefix) {
		d = p.prefix[i]
	} else {
		rt := "sat"
		if !knownTrueSat {
			rt = p.w.s.CheckWith(c)
		}
		if rt == "unknown" {
			p.unknownBranch()
		}
		if rt == "unsat" {
			d = Decision{Val: 0, Forced: true, Aux: aux}
		} else {
			rf := p.w.s.CheckWith(Not(c))
			if rf == "unknown" {
				p.unknownBranch()
			}
			if rf == "unsat" {
				d = Decision{Val: 1, Forced: true, Aux: aux}
			} else {
				d = Decision{Val: 1, Aux: aux}
				p.enqueue(Decision{Val: 0, Aux: aux})
			}
		}
	}
	p.record(d)
	if !d.Forced {
		p.pushLevel()
		if d.Val == 1 {
			p.emit(c)
		} else {
			p.emit(Not(c))
		}
	}
	return d.Val == 1
}

func (p *Path) unknownBranch() {
	p.unknowns++
	p.X.mu.Lock()
	p.X.res.Notes["branch feasibility unknown (kept as feasible)"]++
	p.X.mu.Unlock()
	if p.unknowns > 3 {
		panic(&abortPath{Kind: "bound", Msg: "more than 3 undecided branch conditions on one path (solver unknown)"})
	}
}

// Choose makes a free n-way choice (every option is explored).
func (p *Path) Choose(n int) int {
	if n <= 1 {
		return 0
	}
	i := p.nDec
	var d Decision
	if i < len(p.prefix) {
		d = p.prefix[i]
	} else {
		d = Decision{Val: 0, Free: true}
		for j := n - 1; j >= 1; j-- {
			p.enqueue(Decision{Val: j, Free: true})
		}
	}
	p.record(d)
	p.pushLevel()
	return d.Val
}

// Concretize enumerates the feasible values of t (forking per value).
func (p *Path) Concretize(t *Term, why string) uint64 {
	for n := 0; ; n++ {
		if t.IsConst() {
			return t.C
		}
		if n > p.E.MaxConcretize {
			panic(&abortPath{Kind: "bound", Msg: "concretization fan-out exceeded for " + why})
		}
		i := p.nDec
		var v uint64
		if i < len(p.prefix) {
			v = p.prefix[i].Aux
		} else {
			r, val := p.w.s.Eval(t)
			if r != "sat" {
				panic(&abortPath{Kind: "infeasible", Msg: "concretize: path condition not satisfiable/unknown (" + r + ")"})
			}
			v = val
		}
		if p.branchAux(Eq(t, BVC(t.S.W, v)), v, true) {
			return v
		}
	}
}

func (p *Path) Assume(c *Term) {
	if c.IsFalse() {
		panic(&abortPath{Kind: "infeasible", Msg: "assume(false)"})
	}
	if c.IsTrue() {
		return
	}
	// check feasibility so that later decisions start from a satisfiable pc
	if p.nDec >= len(p.prefix) {
		if r := p.w.s.CheckWith(c); r == "unsat" {
			panic(&abortPath{Kind: "infeasible", Msg: "assumption unsatisfiable"})
		}
	}
	p.emit(c)
}

func (p *Path) note(s string) { p.notes = append(p.notes, s) }

func (p *Path) model(extra *Term) (string, map[string]uint64) {
	return p.w.s.CheckWithModel(extra, p.vars)
}

func (p *Path) Assert(id string, c *Term) {
	x := p.X
	x.mu.Lock()
	st := x.res.Asserts[id]
	if st == nil {
		st = &AssertStat{}
		x.res.Asserts[id] = st
	}
	st.Checked++
	st.Reachable = true
	x.mu.Unlock()
	if !c.IsConst() {
		if v, ok := quickDecide(c, 0); ok && v {
			c = TrueT
		} else {
			c = normCmp(c)
		}
	}
	if c.IsTrue() {
		x.mu.Lock()
		st.Proved++
		x.mu.Unlock()
		return
	}
	if p.nDec < len(p.prefix) {
		// replaying a prefix: this assertion was already decided by the parent path
		x.mu.Lock()
		st.Checked--
		x.mu.Unlock()
		if c.IsFalse() {
			panic(&abortPath{Kind: "stop", Msg: "assertion false"})
		}
		p.emit(c)
		return
	}
	r, m := p.model(Not(c))
	if r == "unsat" && p.w.cross != nil {
		// diff a second solver implementation on a sample of the verdicts the claim rests on
		p.w.nUnsat++
		if x.CrossEvery > 0 && p.w.nUnsat%x.CrossEvery == 0 {
			r2 := p.w.s.CrossCheck(p.w.cross, Not(c))
			x.mu.Lock()
			switch r2 {
			case "unsat":
				x.res.Notes["unsat verdicts re-decided by "+x.CrossKind+": agree"]++
			case "sat":
				x.res.Notes["unsat verdicts re-decided by "+x.CrossKind+": DISAGREE (counted as undecided)"]++
				r = "unknown"
			default:
				x.res.Notes["unsat verdicts re-decided by "+x.CrossKind+": second solver undecided"]++
			}
			x.mu.Unlock()
		}
	}
	x.mu.Lock()
	switch r {
	case "unsat":
		st.Proved++
	case "sat":
		st.Violated++
	default:
		st.Unknown++
	}
	x.mu.Unlock()
	if r == "sat" {
		p.violation(id, m, "")
	}
	if c.IsFalse() {
		panic(&abortPath{Kind: "stop", Msg: "assertion false"})
	}
	if r == "sat" {
		// continue on the side where the assertion holds, if any
		if p.w.s.CheckWith(c) == "unsat" {
			panic(&abortPath{Kind: "stop", Msg: "assertion fails on whole path"})
		}
	}
	p.emit(c)
}

func (p *Path) violation(id string, m map[string]uint64, panicMsg string) {
	v := &Violation{AssertID: id, Harness: p.X.Harness.Name(), Model: m, Notes: append([]string{}, p.notes...), Known: p.known, Panic: panicMsg, Strings: map[string]string{}}
	v.Trace = append([]Decision{}, p.trace...)
	for name, bs := range p.strVars {
		b := make([]byte, len(bs))
		for i, t := range bs {
			if t.IsConst() {
				b[i] = byte(t.C)
			} else {
				b[i] = byte(m[t.Name])
			}
		}
		v.Strings[name] = string(b)
	}
	x := p.X
	x.mu.Lock()
	defer x.mu.Unlock()
	if p.known != "" {
		x.res.KnownHit[p.known]++
		x.knownDone[p.known] = true
		// keep only the first witness per known finding
		for _, o := range x.res.Violations {
			if o.Known == p.known {
				return
			}
		}
	}
	if len(x.res.Violations) < 64 {
		x.res.Violations = append(x.res.Violations, v)
	}
	if p.known == "" {
		x.nViol++
		if x.nViol >= 12 && !x.E.ExploreKnown {
			x.res.Notes["exploration stopped after 12 witnesses"] = 1
			x.stopAll = true
		}
	}
}

func (p *Path) Cover(id string, c *Term) {
	x := p.X
	x.mu.Lock()
	st := x.res.Covers[id]
	if st == nil {
		st = &CoverStat{}
		x.res.Covers[id] = st
	}
	st.Reached++
	done := st.Sat > 0
	x.mu.Unlock()
	if done || p.nDec < len(p.prefix) {
		return
	}
	ok := c.IsTrue()
	if !ok && !c.IsFalse() {
		ok = p.w.s.CheckWith(c) == "sat"
	}
	if ok {
		x.mu.Lock()
		st.Sat++
		x.mu.Unlock()
	}
}

// Known marks the current path as being inside a known-finding region when cond holds.
func (p *Path) Known(id string, cond *Term) {
	if !p.X.Known[id] {
		return // not listed (or fixed): nothing is suppressed
	}
	if cond.IsFalse() {
		return
	}
	if p.Branch(cond) {
		p.X.mu.Lock()
		done := p.X.knownDone[id]
		p.X.mu.Unlock()
		if done && !p.E.ExploreKnown {
			panic(&abortPath{Kind: "stop", Msg: "known region already witnessed: " + id})
		}
		p.known = id
	}
}

func (p *Path) reportGoroutinePanic(gp *goPanic) {
	p.pathPanic(gp, "goroutine")
}

func (p *Path) pathPanic(gp *goPanic, where string) {
	id := "no_panic"
	msg := where + ": " + gp.Msg + " @ " + strings.Join(gp.Stack, " < ")
	x := p.X
	x.mu.Lock()
	st := x.res.Asserts[id]
	if st == nil {
		st = &AssertStat{}
		x.res.Asserts[id] = st
	}
	st.Checked++
	st.Violated++
	x.res.Panics++
	x.mu.Unlock()
	r, m := p.model(TrueT)
	if r != "sat" {
		return
	}
	p.violation(id, m, msg)
}

// ---------- exploration driver ----------

func (x *Explorer) Run() *Result {
	start := time.Now()
	x.res = &Result{Harness: x.Harness.Name(), Unsupported: map[string]int{}, Asserts: map[string]*AssertStat{}, Covers: map[string]*CoverStat{}, KnownHit: map[string]int{}, Funcs: map[string]int{}, Notes: map[string]int{}}
	x.knownDone = map[string]bool{}
	x.cond = sync.NewCond(&x.mu)
	x.work = [][]Decision{{}}
	if x.Seed != nil {
		x.work = [][]Decision{x.Seed}
	}
	if x.Workers <= 0 {
		x.Workers = 1
	}
	var wg sync.WaitGroup
	workers := make([]*worker, x.Workers)
	for i := 0; i < x.Workers; i++ {
		s, err := NewSolver(x.SolverKind, x.TimeoutMs)
		if err != nil {
			x.res.Incomplete = "cannot start solver: " + err.Error()
			return x.res
		}
		if x.SMTLog != "" {
			f, _ := os.Create(fmt.Sprintf("%s.%d.smt2", x.SMTLog, i))
			s.Log = f
		}
		workers[i] = &worker{s: s}
		if x.CrossKind != "" && x.CrossKind != x.SolverKind && x.CrossEvery > 0 {
			if cs, err := NewSolver(x.CrossKind, x.TimeoutMs); err == nil {
				workers[i].cross = cs
			}
		}
	}
	for i := 0; i < x.Workers; i++ {
		wg.Add(1)
		go func(w *worker) {
			defer wg.Done()
			x.workerLoop(w)
		}(workers[i])
	}
	wg.Wait()
	for _, w := range workers {
		x.res.Queries += w.s.Queries
		x.res.SatQ += w.s.Sat
		x.res.UnsatQ += w.s.Unsat
		x.res.UnknownQ += w.s.Unknown
		x.res.SolverErr += w.s.Errors
		x.res.SolveTime += w.s.SolveTime
		w.s.Close()
		if w.cross != nil {
			w.cross.Close()
		}
	}
	x.res.Wall = time.Since(start)
	return x.res
}

func (x *Explorer) workerLoop(w *worker) {
	for {
		x.mu.Lock()
		for len(x.work) == 0 && x.active > 0 && !x.stopAll {
			x.cond.Wait()
		}
		if x.stopAll || (len(x.work) == 0 && x.active == 0) {
			x.mu.Unlock()
			x.cond.Broadcast()
			return
		}
		if x.res.Paths >= x.MaxPaths {
			x.res.Incomplete = fmt.Sprintf("path budget %d exhausted with %d pending", x.MaxPaths, len(x.work))
			x.stopAll = true
			x.mu.Unlock()
			x.cond.Broadcast()
			return
		}
		if x.expired() {
			x.res.Incomplete = fmt.Sprintf("time budget exhausted with %d pending", len(x.work))
			x.stopAll = true
			x.mu.Unlock()
			x.cond.Broadcast()
			return
		}
		pre := x.work[len(x.work)-1]
		x.work = x.work[:len(x.work)-1]
		x.active++
		x.res.Paths++
		x.mu.Unlock()

		x.runPath(w, pre)

		x.mu.Lock()
		x.active--
		x.mu.Unlock()
		x.cond.Broadcast()
	}
}

func (x *Explorer) runPath(w *worker, prefix []Decision) {
	// align the solver with the shared prefix
	common := 0
	for common < len(prefix) && common < len(w.prevTrace) && prefix[common] == w.prevTrace[common] {
		common++
	}
	keep := 0
	for i := 0; i < common; i++ {
		if !prefix[i].Forced {
			keep++
		}
	}
	if keep < len(w.levelStart) {
		w.s.Pop(len(w.levelStart) - keep)
		w.count = w.levelStart[keep]
		w.levelStart = w.levelStart[:keep]
	}
	p := &Path{E: x.E, X: x, w: w, prefix: prefix, globals: map[*ssa.Global]*Object{}, varSeen: map[string]bool{}, strVars: map[string][]*Term{}, ghost: map[string]Value{}}
	kind, msg := p.execHarness(x.Harness)
	w.prevTrace = p.trace
	x.mu.Lock()
	defer x.mu.Unlock()
	x.res.Steps += int64(p.steps)
	x.res.Notes["branches decided by interval pre-check"] += p.quick
	for k, v := range p.funcs {
		x.res.Funcs[k] += v
	}
	switch kind {
	case "":
		x.res.Completed++
		if p.sample != nil && len(x.res.Samples) < 12 {
			x.res.Samples = append(x.res.Samples, p.sample)
		}
	case "infeasible", "stop":
		x.res.Infeasible++
	case "unsupported":
		x.res.Unsupported[msg]++
	case "unwind":
		x.res.Unwind++
		x.res.Unsupported["unwind: "+msg]++
	case "bound":
		x.res.BoundHit++
		x.res.Unsupported["bound: "+msg]++
	}
}

func (p *Path) execHarness(fn *ssa.Function) (kind string, msg string) {
	defer func() {
		if r := recover(); r != nil {
			switch e := r.(type) {
			case *abortPath:
				kind, msg = e.Kind, e.Msg
			case *goPanic:
				p.pathPanic(e, "harness")
				kind, msg = "", ""
			default:
				panic(r)
			}
		}
	}()
	p.E.initGlobals(p)
	p.CallFn(fn, nil, nil)
	return "", ""
}

func (r *Result) Summary() string {
	var sb strings.Builder
	fmt.Fprintf(&sb, "harness %s: paths=%d completed=%d infeasible=%d panics=%d queries=%d (sat %d unsat %d unknown %d err %d) solve=%.1fs wall=%.1fs steps=%d\n",
		r.Harness, r.Paths, r.Completed, r.Infeasible, r.Panics, r.Queries, r.SatQ, r.UnsatQ, r.UnknownQ, r.SolverErr, r.SolveTime.Seconds(), r.Wall.Seconds(), r.Steps)
	ids := []string{}
	for id := range r.Asserts {
		ids = append(ids, id)
	}
	sort.Strings(ids)
	for _, id := range ids {
		a := r.Asserts[id]
		fmt.Fprintf(&sb, "  assert %-40s checked=%d proved=%d violated=%d unknown=%d\n", id, a.Checked, a.Proved, a.Violated, a.Unknown)
	}
	ids = ids[:0]
	for id := range r.Covers {
		ids = append(ids, id)
	}
	sort.Strings(ids)
	for _, id := range ids {
		c := r.Covers[id]
		fmt.Fprintf(&sb, "  cover  %-40s reached=%d sat=%d\n", id, c.Reached, c.Sat)
	}
	for k, v := range r.Unsupported {
		fmt.Fprintf(&sb, "  ABORT x%d: %s\n", v, k)
	}
	if r.Incomplete != "" {
		fmt.Fprintf(&sb, "  INCOMPLETE: %s\n", r.Incomplete)
	}
	shown := map[string]int{}
	for _, v := range r.Violations {
		shown[v.AssertID]++
		if shown[v.AssertID] > 4 {
			continue
		}
		fmt.Fprintf(&sb, "  witness assert=%s known=%q strings=%v model=%v panic=%s notes=%v\n", v.AssertID, v.Known, v.Strings, v.Model, v.Panic, v.Notes)
	}
	return sb.String()
}
