package engine

import (
	"fmt"
	"go/types"
	"sort"
	"strings"

	"golang.org/x/tools/go/ssa"
)

// ---------------------------------------------------------------------------------------------
// C11 support: predictive data-race and lock-order analysis over symbolically explored paths.
// Each logical thread (one API call, or a goroutine it spawns) is executed on its own; the engine
// records its accesses to shared STFS objects together with the critical sections (mutex acquire/
// release events) that enclose them. Whether two conflicting accesses of different threads can be
// adjacent in some interleaving is then asked of the solver as a query over integer timestamps:
// program order inside a thread, mutual exclusion of critical sections on the same mutex, spawn order.
// ---------------------------------------------------------------------------------------------

type csection struct {
	lock   string
	id     int
	shared bool // a reader section of a sync.RWMutex: may overlap other reader sections of the same mutex
}

type accEvent struct {
	thread int
	seq    int
	loc    string
	field  string
	write  bool
	held   []csection
	site   string
	api    string // outermost STFS/File method on the call stack
}

type threadMeta struct {
	parent    int
	parentSeq int
}

type raceState struct {
	active  bool
	cur     int
	events  []accEvent
	seq     map[int]int
	held    map[int][]csection
	nextCS  int
	threads map[int]*threadMeta
	order   []lockEdge
	watch   map[string]bool
}

type lockEdge struct {
	thread     int
	held, next string
}

func (p *Path) race() *raceState {
	if p.rs == nil {
		p.rs = &raceState{seq: map[int]int{}, held: map[int][]csection{}, threads: map[int]*threadMeta{}, watch: map[string]bool{}}
		for _, n := range []string{"STFS", "File", "FileInfo", "MetadataPersister", "TapeManager", "Operations", "CounterReadCloser", "FileFlags"} {
			p.rs.watch[n] = true
		}
	}
	return p.rs
}

func lockKey(ptr *Pointer) string {
	if ptr.IsNil() {
		return "nil"
	}
	return fmt.Sprintf("obj%d%v", ptr.Obj.ID, ptr.Path)
}

// fieldName names the location inside a watched object, or "" if the object is not watched.
func (p *Path) fieldName(ptr *Pointer) string {
	if ptr.IsNil() || ptr.Obj.Typ == nil {
		return ""
	}
	t := ptr.Obj.Typ
	n, ok := t.(*types.Named)
	if !ok {
		return ""
	}
	rs := p.race()
	if !rs.watch[n.Obj().Name()] || n.Obj().Pkg() == nil || !strings.HasPrefix(n.Obj().Pkg().Path(), "github.com/pojntfx/stfs") {
		return ""
	}
	name := n.Obj().Name()
	cur := t
	for _, i := range ptr.Path {
		st, ok := cur.Underlying().(*types.Struct)
		if !ok {
			break
		}
		f := st.Field(i)
		// accesses to the mutexes themselves are synchronisation, not data
		if isNamedType(f.Type(), "sync", "Mutex") {
			return ""
		}
		name += "." + f.Name()
		cur = f.Type()
	}
	return name
}

func (p *Path) recordAccess(ptr *Pointer, write bool) {
	rs := p.rs
	if rs == nil || !rs.active {
		return
	}
	fn := p.fieldName(ptr)
	if fn == "" {
		return
	}
	th := p.curThread
	rs.seq[th]++
	site := ""
	if len(p.stack) > 0 {
		site = p.stack[len(p.stack)-1]
	}
	api := ""
	for _, fr := range p.stack {
		if strings.Contains(fr, "pkg/fs.STFS).") || strings.Contains(fr, "pkg/fs.File).") {
			api = fr
			break
		}
	}
	held := append([]csection{}, rs.held[th]...)
	rs.events = append(rs.events, accEvent{thread: th, seq: rs.seq[th], loc: lockKey(ptr), field: fn, write: write, held: held, site: site, api: api})
}

// recordPseudo records an access to a shared resource that is not a heap cell of the program (the index
// store behind M1, the drive behind M2), so that the same schedule query decides atomicity for them.
func (p *Path) recordPseudo(name string, write bool) {
	rs := p.rs
	if rs == nil || !rs.active {
		return
	}
	th := p.curThread
	rs.seq[th]++
	api := ""
	for _, fr := range p.stack {
		if strings.Contains(fr, "pkg/fs.STFS).") || strings.Contains(fr, "pkg/fs.File).") {
			api = fr
			break
		}
	}
	site := ""
	if len(p.stack) > 0 {
		site = p.stack[len(p.stack)-1]
	}
	held := append([]csection{}, rs.held[th]...)
	rs.events = append(rs.events, accEvent{thread: th, seq: rs.seq[th], loc: name, field: name, write: write, held: held, site: site, api: api})
}

func registerRace(e *Engine) {
	I := e.Intrinsics
	M := ModelPkg + "."
	I[M+"Touch"] = func(p *Path, fn *ssa.Function, a []Value) Value {
		p.recordPseudo(concStr(p, a[0], "Touch"), a[1].(*Term).IsTrue())
		return nil
	}
	I[M+"CurrentThread"] = func(p *Path, fn *ssa.Function, a []Value) Value {
		return BVCi(64, int64(p.curThread))
	}
	I[M+"ThreadBegin"] = func(p *Path, fn *ssa.Function, a []Value) Value {
		rs := p.race()
		id := int(concInt(p, a[0], "ThreadBegin"))
		rs.active = true
		p.curThread = id
		if rs.threads[id] == nil {
			rs.threads[id] = &threadMeta{parent: -1}
		}
		p.onLoad = func(ptr *Pointer) { p.recordAccess(ptr, false) }
		p.onStore = func(ptr *Pointer) { p.recordAccess(ptr, true) }
		return nil
	}
	I[M+"ThreadEnd"] = func(p *Path, fn *ssa.Function, a []Value) Value {
		rs := p.race()
		rs.active = false
		p.curThread = 0
		p.onLoad, p.onStore = nil, nil
		return nil
	}
	lockEvent := func(p *Path, a []Value, shared bool) {
		rs := p.race()
		ptr, _ := unwrapIface(a[0]).(*Pointer)
		key := lockKey(ptr)
		th := p.curThread
		if a[1].(*Term).IsTrue() {
			for _, h := range rs.held[th] {
				rs.order = append(rs.order, lockEdge{thread: th, held: h.lock, next: key})
			}
			rs.nextCS++
			rs.held[th] = append(rs.held[th], csection{lock: key, id: rs.nextCS, shared: shared})
		} else {
			hs := rs.held[th]
			for i := len(hs) - 1; i >= 0; i-- {
				if hs[i].lock == key {
					rs.held[th] = append(append([]csection{}, hs[:i]...), hs[i+1:]...)
					break
				}
			}
		}
	}
	I[M+"LockEventShared"] = func(p *Path, fn *ssa.Function, a []Value) Value {
		lockEvent(p, a, true)
		return nil
	}
	I[M+"LockEvent"] = func(p *Path, fn *ssa.Function, a []Value) Value {
		rs := p.race()
		ptr, _ := unwrapIface(a[0]).(*Pointer)
		key := lockKey(ptr)
		th := p.curThread
		if a[1].(*Term).IsTrue() {
			for _, h := range rs.held[th] {
				rs.order = append(rs.order, lockEdge{thread: th, held: h.lock, next: key})
			}
			rs.nextCS++
			rs.held[th] = append(rs.held[th], csection{lock: key, id: rs.nextCS})
		} else {
			hs := rs.held[th]
			for i := len(hs) - 1; i >= 0; i-- {
				if hs[i].lock == key {
					rs.held[th] = append(append([]csection{}, hs[:i]...), hs[i+1:]...)
					break
				}
			}
		}
		return nil
	}
	I[M+"HeldByCurrentThread"] = func(p *Path, fn *ssa.Function, a []Value) Value {
		return BVCi(64, int64(len(p.race().held[p.curThread])))
	}
	// RaceCheck(knownID, knownFields): asserts that no two conflicting accesses of different threads can be
	// adjacent. Races on the comma-separated fields are attributed to the known finding (if it is listed).
	I[M+"RaceCheck"] = func(p *Path, fn *ssa.Function, a []Value) Value {
		// entries are "findingID:Field@apiSubstring": a race is attributed to the listed finding only if the
		// field matches and one of the two accesses was made inside an API method whose name contains the substring
		var specs [][3]string
		for _, f := range strings.Split(concStr(p, a[0], "RaceCheck specs"), ",") {
			if f == "" {
				continue
			}
			id := ""
			if i := strings.Index(f, ":"); i >= 0 {
				id, f = f[:i], f[i+1:]
			}
			parts := strings.SplitN(f, "@", 2)
			if len(parts) == 1 {
				parts = append(parts, "")
			}
			specs = append(specs, [3]string{id, parts[0], parts[1]})
		}
		knownID := ""
		p.raceCheck(knownID, specs)
		return nil
	}
}

func (rs *raceState) ordered(a, b accEvent) bool {
	// spawn order: everything the parent did before the spawn happens before the child
	if m := rs.threads[b.thread]; m != nil && m.parent == a.thread && a.seq <= m.parentSeq {
		return true
	}
	if m := rs.threads[a.thread]; m != nil && m.parent == b.thread && b.seq <= m.parentSeq {
		return true
	}
	return false
}

func (p *Path) raceCheck(knownID string, specs [][3]string) {
	rs := p.race()
	byLoc := map[string][]accEvent{}
	for _, e := range rs.events {
		byLoc[e.loc] = append(byLoc[e.loc], e)
	}
	locs := make([]string, 0, len(byLoc))
	for l := range byLoc {
		locs = append(locs, l)
	}
	sort.Strings(locs)
	type verdict struct{ racy bool }
	cache := map[string]bool{}
	pairs, queries := 0, 0
	reported := map[string]bool{}
	for _, l := range locs {
		evs := byLoc[l]
		for i := 0; i < len(evs); i++ {
			for j := i + 1; j < len(evs); j++ {
				a, b := evs[i], evs[j]
				if a.thread == b.thread || (!a.write && !b.write) || rs.ordered(a, b) {
					continue
				}
				pairs++
				sig := csSig(a.held) + "|" + csSig(b.held)
				racy, ok := cache[sig]
				if !ok {
					racy = p.raceQuery(a, b)
					cache[sig] = racy
					queries++
				}
				if !racy {
					continue
				}
				key := a.field + "|" + a.api + "|" + b.api
				if reported[key] {
					continue
				}
				reported[key] = true
				p.note(fmt.Sprintf("data race on %s: thread %d %s in %s (%s) / thread %d %s in %s (%s)", a.field, a.thread, rw(a.write), a.site, a.api, b.thread, rw(b.write), b.site, b.api))
				saved := p.known
				// A race is attributed to a listed finding only if exactly one of the two accesses is made inside an
				// API method the finding names: two accesses that both come from such a method (e.g. two restore
				// helper goroutines, which the read operation lock serialises on the unchanged tree) are not what
				// the finding describes.
				matchedA, matchedB, id := false, false, ""
				for _, sp := range specs {
					if sp[1] != a.field || !p.X.Known[sp[0]] {
						continue
					}
					if strings.Contains(a.api, sp[2]) {
						matchedA, id = true, sp[0]
					}
					if strings.Contains(b.api, sp[2]) {
						matchedB, id = true, sp[0]
					}
				}
				if matchedA != matchedB {
					p.known = id
				}
				p.raceViolation("C11.no_data_race")
				p.known = saved
			}
		}
	}
	p.X.mu.Lock()
	p.X.res.Notes["conflicting access pairs examined"] += pairs
	p.X.res.Notes["schedule queries (timestamps) discharged"] += queries
	st := p.X.res.Asserts["C11.no_data_race"]
	if st == nil {
		st = &AssertStat{}
		p.X.res.Asserts["C11.no_data_race"] = st
	}
	st.Checked++
	st.Reachable = true
	if len(reported) == 0 {
		st.Proved++
	}
	p.X.mu.Unlock()
	p.atomicityCheck(specs)
	// lock order: two threads that take the same two mutexes in opposite order can deadlock
	for _, x := range rs.order {
		for _, y := range rs.order {
			if x.thread != y.thread && x.held == y.next && x.next == y.held {
				p.note(fmt.Sprintf("lock order inversion between threads %d and %d on %s / %s", x.thread, y.thread, x.held, x.next))
				p.raceViolation("C11.no_lock_order_inversion")
				return
			}
		}
	}
}

func rw(w bool) string {
	if w {
		return "write"
	}
	return "read"
}

func csSig(cs []csection) string {
	var ls []string
	for _, c := range cs {
		if c.shared {
			ls = append(ls, c.lock+"(shared)")
		} else {
			ls = append(ls, c.lock)
		}
	}
	sort.Strings(ls)
	return strings.Join(ls, ",")
}

func (p *Path) raceViolation(id string) {
	x := p.X
	x.mu.Lock()
	st := x.res.Asserts[id]
	if st == nil {
		st = &AssertStat{}
		x.res.Asserts[id] = st
	}
	st.Violated++
	x.mu.Unlock()
	r, m := p.model(TrueT)
	if r == "sat" {
		p.violation(id, m, "")
	}
}

// raceQuery asks the solver whether a and b can be adjacent in some interleaving: integer timestamps,
// each access inside its critical sections, critical sections on the same mutex do not overlap.
func (p *Path) raceQuery(a, b accEvent) bool {
	var sb strings.Builder
	p.w.rq++
	rq := fmt.Sprintf("rq%d", p.w.rq) // fresh names: declarations are global in the solver process
	sb.WriteString("(push 1)\n(declare-const " + rq + "_ta Int)\n(declare-const " + rq + "_tb Int)\n")
	decl := func(prefix string, cs []csection, t string) {
		for i, c := range cs {
			fmt.Fprintf(&sb, "(declare-const %s_a%d Int)\n(declare-const %s_r%d Int)\n", prefix, i, prefix, i)
			fmt.Fprintf(&sb, "(assert (and (< %s_a%d %s) (< %s %s_r%d)))\n", prefix, i, t, t, prefix, i)
			_ = c
		}
	}
	decl(rq+"_A", a.held, rq+"_ta")
	decl(rq+"_B", b.held, rq+"_tb")
	for i, ca := range a.held {
		for j, cb := range b.held {
			if ca.lock == cb.lock && !(ca.shared && cb.shared) {
				fmt.Fprintf(&sb, "(assert (or (< %s_A_r%d %s_B_a%d) (< %s_B_r%d %s_A_a%d)))\n", rq, i, rq, j, rq, j, rq, i)
			}
		}
	}
	// all timestamps are distinct integers; adjacency of the two accesses
	names := []string{rq + "_ta", rq + "_tb"}
	for i := range a.held {
		names = append(names, fmt.Sprintf("%s_A_a%d", rq, i), fmt.Sprintf("%s_A_r%d", rq, i))
	}
	for i := range b.held {
		names = append(names, fmt.Sprintf("%s_B_a%d", rq, i), fmt.Sprintf("%s_B_r%d", rq, i))
	}
	sb.WriteString("(assert (distinct " + strings.Join(names, " ") + "))\n")
	sb.WriteString("(assert (or (= " + rq + "_tb (+ " + rq + "_ta 1)) (= " + rq + "_ta (+ " + rq + "_tb 1))))\n")
	res := p.w.s.RawCheck(sb.String())
	if res == "unknown" {
		p.X.mu.Lock()
		p.X.res.Notes["schedule query undecided (treated as racy)"]++
		p.X.mu.Unlock()
	}
	return res != "unsat"
}


// atomicityCheck: the effects of one API call on the index store and on the drive must appear at once. For every two
// writes w1, w2 (program order) that one call makes to such a resource and every access y another thread makes to
// it, the solver is asked for a schedule with w1 < y < w2: integer timestamps, every access inside its critical
// sections, one acquire/release pair per critical section instance, sections on the same mutex disjoint. sat = the
// other call can observe (or overwrite) a state in which only part of the first call's effects exist.
func (p *Path) atomicityCheck(specs [][3]string) {
	rs := p.race()
	pseudo := map[string]bool{"IndexStore.rows": true, "Drive.tape": true}
	byThread := map[int][]accEvent{}
	for _, e := range rs.events {
		if pseudo[e.loc] {
			byThread[e.thread] = append(byThread[e.thread], e)
		}
	}
	cache := map[string]bool{}
	reported := map[string]bool{}
	queries, triples := 0, 0
	ids := func(cs []csection) string {
		var xs []string
		for _, c := range cs {
			xs = append(xs, fmt.Sprintf("%s#%d", c.lock, c.id))
		}
		return strings.Join(xs, ",")
	}
	for ta, evs := range byThread {
		for i := 0; i < len(evs); i++ {
			for j := i + 1; j < len(evs); j++ {
				w1, w2 := evs[i], evs[j]
				if !w1.write || !w2.write || w1.loc != w2.loc || w1.api != w2.api || w1.api == "" {
					continue
				}
				if ids(w1.held) == ids(w2.held) && len(w1.held) > 0 {
					continue // same critical sections: nothing can come in between
				}
				for tb, other := range byThread {
					if tb == ta {
						continue
					}
					for _, y := range other {
						if y.loc != w1.loc || rs.ordered(w1, y) || rs.ordered(y, w2) {
							continue
						}
						triples++
						key := ids(w1.held) + "|" + ids(w2.held) + "|" + csSig(y.held)
						bad, ok := cache[key]
						if !ok {
							bad = p.betweenQuery(w1, w2, y)
							cache[key] = bad
							queries++
						}
						if !bad {
							continue
						}
						rk := w1.loc + "|" + w1.api + "|" + y.api
						if reported[rk] {
							continue
						}
						reported[rk] = true
						p.note(fmt.Sprintf("call not atomic: %s writes %s in two critical sections (%s, then %s); thread %d (%s) can access it in between", w1.api, w1.loc, w1.site, w2.site, y.thread, y.api))
						saved := p.known
						for _, sp := range specs {
							if sp[1] == w1.loc && (strings.Contains(w1.api, sp[2]) || strings.Contains(y.api, sp[2])) && p.X.Known[sp[0]] {
								p.known = sp[0]
							}
						}
						p.raceViolation("C11.call_effects_are_atomic")
						p.known = saved
					}
				}
			}
		}
	}
	p.X.mu.Lock()
	p.X.res.Notes["write/write/access triples examined for atomicity"] += triples
	p.X.res.Notes["schedule queries (timestamps) discharged"] += queries
	st := p.X.res.Asserts["C11.call_effects_are_atomic"]
	if st == nil {
		st = &AssertStat{}
		p.X.res.Asserts["C11.call_effects_are_atomic"] = st
	}
	st.Checked++
	st.Reachable = true
	if len(reported) == 0 {
		st.Proved++
	}
	p.X.mu.Unlock()
}

// betweenQuery asks the solver for a schedule in which y falls strictly between w1 and w2.
func (p *Path) betweenQuery(w1, w2, y accEvent) bool {
	var sb strings.Builder
	p.w.rq++
	rq := fmt.Sprintf("aq%d", p.w.rq)
	sb.WriteString("(push 1)\n")
	names := []string{}
	decl := func(n string) {
		fmt.Fprintf(&sb, "(declare-const %s Int)\n", n)
		names = append(names, n)
	}
	t1, t2, ty := rq+"_w1", rq+"_w2", rq+"_y"
	decl(t1)
	decl(t2)
	decl(ty)
	// one acquire/release pair per critical section instance of the writing thread
	type sec struct {
		a, r, lock string
		shared     bool
	}
	secsA := map[int]sec{}
	var orderA []int
	addA := func(cs []csection, t string) {
		for _, c := range cs {
			sc, ok := secsA[c.id]
			if !ok {
				sc = sec{a: fmt.Sprintf("%s_Aa%d", rq, c.id), r: fmt.Sprintf("%s_Ar%d", rq, c.id), lock: c.lock, shared: c.shared}
				decl(sc.a)
				decl(sc.r)
				fmt.Fprintf(&sb, "(assert (< %s %s))\n", sc.a, sc.r)
				secsA[c.id] = sc
				orderA = append(orderA, c.id)
			}
			fmt.Fprintf(&sb, "(assert (and (< %s %s) (< %s %s)))\n", sc.a, t, t, sc.r)
		}
	}
	addA(w1.held, t1)
	addA(w2.held, t2)
	// sections of one thread on the same mutex follow each other in the order they were entered (ids grow)
	for _, i := range orderA {
		for _, j := range orderA {
			if i < j && secsA[i].lock == secsA[j].lock {
				fmt.Fprintf(&sb, "(assert (< %s %s))\n", secsA[i].r, secsA[j].a)
			}
		}
	}
	var secsB []sec
	for k, c := range y.held {
		sc := sec{a: fmt.Sprintf("%s_Ba%d", rq, k), r: fmt.Sprintf("%s_Br%d", rq, k), lock: c.lock, shared: c.shared}
		decl(sc.a)
		decl(sc.r)
		fmt.Fprintf(&sb, "(assert (and (< %s %s) (< %s %s)))\n", sc.a, ty, ty, sc.r)
		secsB = append(secsB, sc)
	}
	for _, sa := range secsA {
		for _, sb2 := range secsB {
			if sa.lock == sb2.lock && !(sa.shared && sb2.shared) {
				fmt.Fprintf(&sb, "(assert (or (< %s %s) (< %s %s)))\n", sa.r, sb2.a, sb2.r, sa.a)
			}
		}
	}
	sb.WriteString("(assert (distinct " + strings.Join(names, " ") + "))\n")
	fmt.Fprintf(&sb, "(assert (and (< %s %s) (< %s %s)))\n", t1, ty, ty, t2)
	res := p.w.s.RawCheck(sb.String())
	if res == "unknown" {
		p.X.mu.Lock()
		p.X.res.Notes["schedule query undecided (treated as not atomic)"]++
		p.X.mu.Unlock()
	}
	return res != "unsat"
}
