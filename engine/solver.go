package engine

import (
	"bufio"
	"fmt"
	"io"
	"os/exec"
	"strconv"
	"strings"
	"time"
)

// Solver drives one long-lived SMT solver process over SMT-LIB2 text.
type Solver struct {
	Name     string
	cmd      *exec.Cmd
	in       io.WriteCloser
	out      *bufio.Reader
	declared map[string]bool
	Level    int

	Queries   int
	Sat       int
	Unsat     int
	Unknown   int
	Errors    int
	SolveTime time.Duration
	Log       io.Writer
	dead      bool
	kind      string
	timeoutMs int
	decls     []string   // declare-const lines in order
	stack     [][]string // asserted formulas per level (level 0 first)
	Restarts  int
}

func NewSolver(kind string, timeoutMs int) (*Solver, error) {
	s := &Solver{Name: kind, kind: kind, timeoutMs: timeoutMs, declared: map[string]bool{}, stack: [][]string{nil}}
	if err := s.start(); err != nil {
		return nil, err
	}
	return s, nil
}

func (s *Solver) start() error {
	kind, timeoutMs := s.kind, s.timeoutMs
	var cmd *exec.Cmd
	switch kind {
	case "z3":
		cmd = exec.Command("z3", "-in", fmt.Sprintf("-t:%d", timeoutMs))
	case "z3-new":
		cmd = exec.Command("z3-new", "-in", fmt.Sprintf("-t:%d", timeoutMs))
	case "cvc5":
		cmd = exec.Command("cvc5", "--incremental", "--lang=smt2", fmt.Sprintf("--tlimit-per=%d", timeoutMs), "--produce-models")
	case "cvc5-int":
		cmd = exec.Command("cvc5", "--incremental", "--lang=smt2", fmt.Sprintf("--tlimit-per=%d", timeoutMs), "--produce-models", "--solve-bv-as-int=sum")
	default:
		return fmt.Errorf("unknown solver %s", kind)
	}
	in, err := cmd.StdinPipe()
	if err != nil {
		return err
	}
	out, err := cmd.StdoutPipe()
	if err != nil {
		return err
	}
	cmd.Stderr = nil
	if err := cmd.Start(); err != nil {
		return err
	}
	s.cmd, s.in, s.out, s.dead = cmd, in, bufio.NewReaderSize(out, 1<<16), false
	s.send("(set-option :produce-models true)")
	s.send("(set-option :global-declarations true)")
	if strings.HasPrefix(kind, "cvc5") {
		s.send("(set-logic ALL)")
	}
	return nil
}

// restart kills a stuck solver process and rebuilds its assertion stack.
func (s *Solver) restart() {
	s.Restarts++
	if s.cmd != nil && s.cmd.Process != nil {
		s.cmd.Process.Kill()
		s.cmd.Wait()
	}
	if err := s.start(); err != nil {
		s.dead = true
		return
	}
	for _, d := range s.decls {
		s.send(d)
	}
	for i, lvl := range s.stack {
		if i > 0 {
			s.send("(push 1)")
		}
		for _, a := range lvl {
			s.send("(assert " + a + ")")
		}
	}
}

func (s *Solver) Close() {
	if s.dead {
		return
	}
	s.dead = true
	s.in.Close()
	done := make(chan struct{})
	go func() { s.cmd.Wait(); close(done) }()
	select {
	case <-done:
	case <-time.After(2 * time.Second):
		s.cmd.Process.Kill()
	}
}

func (s *Solver) send(line string) {
	if s.Log != nil {
		fmt.Fprintln(s.Log, line)
	}
	io.WriteString(s.in, line)
	io.WriteString(s.in, "\n")
}

func (s *Solver) declare(t *Term) {
	vars := map[string]*Term{}
	CollectVars(t, vars)
	for n, v := range vars {
		if !s.declared[n] {
			s.declared[n] = true
			d := fmt.Sprintf("(declare-const %s %s)", n, v.S.String())
			s.decls = append(s.decls, d)
			s.send(d)
		}
	}
}

func (s *Solver) Push() {
	s.send("(push 1)")
	s.Level++
	s.stack = append(s.stack, nil)
}

func (s *Solver) Pop(n int) {
	if n <= 0 {
		return
	}
	s.send(fmt.Sprintf("(pop %d)", n))
	s.Level -= n
	s.stack = s.stack[:len(s.stack)-n]
}

func (s *Solver) Assert(t *Term) {
	if t.IsTrue() {
		return
	}
	s.declare(t)
	txt := t.SMT()
	s.stack[len(s.stack)-1] = append(s.stack[len(s.stack)-1], txt)
	s.send("(assert " + txt + ")")
}

func (s *Solver) readLine() string {
	type res struct {
		line string
		err  error
	}
	out := s.out
	ch := make(chan res, 1)
	go func() {
		for {
			line, err := out.ReadString('\n')
			if err != nil {
				ch <- res{"", err}
				return
			}
			line = strings.TrimSpace(line)
			if line == "" {
				continue
			}
			ch <- res{line, nil}
			return
		}
	}()
	hard := time.Duration(s.timeoutMs)*time.Millisecond*2 + 5*time.Second
	select {
	case r := <-ch:
		if r.err != nil {
			s.dead = true
			return "(error \"solver died: " + r.err.Error() + "\")"
		}
		return r.line
	case <-time.After(hard):
		// the solver ignored its soft timeout: kill it, rebuild the stack, report unknown
		s.restart()
		return "timeout"
	}
}

// Check returns "sat", "unsat" or "unknown" (errors map to unknown and are counted).
func (s *Solver) Check() string {
	if s.dead {
		s.Unknown++
		return "unknown"
	}
	start := time.Now()
	s.send("(check-sat)")
	var res string
	for {
		line := s.readLine()
		if strings.HasPrefix(line, "(error") {
			s.Errors++
			if s.Log != nil {
				fmt.Fprintln(s.Log, "; "+line)
			}
			if s.dead {
				res = "unknown"
				break
			}
			// an error before the verdict makes the verdict untrustworthy
			res = "error"
			continue
		}
		if line == "sat" || line == "unsat" || line == "unknown" || line == "timeout" {
			if res == "error" {
				res = "unknown"
			} else {
				res = line
			}
			break
		}
	}
	s.SolveTime += time.Since(start)
	if s.Log != nil {
		fmt.Fprintf(s.Log, "; -> %s in %.3fs\n", res, time.Since(start).Seconds())
	}
	s.Queries++
	switch res {
	case "sat":
		s.Sat++
	case "unsat":
		s.Unsat++
	default:
		res = "unknown"
		s.Unknown++
	}
	return res
}

// RawCheck runs a self-contained script (starting with "(push 1)") and pops it again.
func (s *Solver) RawCheck(script string) string {
	gen := s.Restarts
	for _, line := range strings.Split(strings.TrimSpace(script), "\n") {
		s.send(line)
	}
	r := s.Check()
	if s.Restarts == gen {
		s.send("(pop 1)")
	}
	return r
}

// CheckWith checks the current stack plus extra, leaving the stack unchanged.
func (s *Solver) CheckWith(extra *Term) string {
	if extra.IsFalse() {
		return "unsat"
	}
	s.declare(extra)
	gen := s.Restarts
	s.send("(push 1)")
	s.send("(assert " + extra.SMT() + ")")
	r := s.Check()
	if s.Restarts == gen {
		s.send("(pop 1)")
	}
	return r
}

// CheckWithModel checks with extra and if sat returns values for the given terms.
func (s *Solver) CheckWithModel(extra *Term, vars []*Term) (string, map[string]uint64) {
	s.declare(extra)
	for _, v := range vars {
		s.declare(v)
	}
	gen := s.Restarts
	s.send("(push 1)")
	s.send("(assert " + extra.SMT() + ")")
	r := s.Check()
	var m map[string]uint64
	if r == "sat" {
		m = s.GetValues(vars)
	}
	if s.Restarts == gen {
		s.send("(pop 1)")
	}
	return r, m
}

// Eval returns a model value of t under the current stack.
func (s *Solver) Eval(t *Term) (string, uint64) {
	s.declare(t)
	r := s.Check()
	if r != "sat" {
		return r, 0
	}
	s.send("(get-value (" + t.SMT() + "))")
	txt := strings.TrimSpace(s.readSexp())
	// ((<term> <value>))
	txt = strings.TrimSuffix(strings.TrimSuffix(txt, ")"), ")")
	txt = strings.TrimSpace(txt)
	var tok string
	if strings.HasSuffix(txt, ")") {
		i := strings.LastIndex(txt, "(")
		tok = txt[i:]
		parts := strings.Fields(strings.Trim(tok, "()"))
		if len(parts) == 3 && parts[0] == "_" && strings.HasPrefix(parts[1], "bv") {
			v, err := strconv.ParseUint(parts[1][2:], 10, 64)
			if err == nil {
				return "sat", v
			}
		}
		return "unknown", 0
	}
	i := strings.LastIndexAny(txt, " \n\t")
	tok = txt[i+1:]
	switch {
	case strings.HasPrefix(tok, "#x"):
		v, err := strconv.ParseUint(tok[2:], 16, 64)
		if err == nil {
			return "sat", v
		}
	case strings.HasPrefix(tok, "#b"):
		v, err := strconv.ParseUint(tok[2:], 2, 64)
		if err == nil {
			return "sat", v
		}
	case tok == "true":
		return "sat", 1
	case tok == "false":
		return "sat", 0
	}
	return "unknown", 0
}

// GetValues reads model values for vars (must follow a sat Check).
func (s *Solver) GetValues(vars []*Term) map[string]uint64 {
	res := map[string]uint64{}
	if len(vars) == 0 {
		return res
	}
	// chunk to keep lines manageable
	for i := 0; i < len(vars); i += 64 {
		j := i + 64
		if j > len(vars) {
			j = len(vars)
		}
		var sb strings.Builder
		sb.WriteString("(get-value (")
		for _, v := range vars[i:j] {
			sb.WriteString(v.SMT())
			sb.WriteByte(' ')
		}
		sb.WriteString("))")
		s.send(sb.String())
		txt := s.readSexp()
		vals := parseValues(txt)
		for k, v := range vals {
			res[k] = v
		}
	}
	return res
}

func (s *Solver) readSexp() string {
	var sb strings.Builder
	depth := 0
	started := false
	for {
		line, err := s.out.ReadString('\n')
		if err != nil {
			s.dead = true
			return sb.String()
		}
		for _, c := range line {
			if c == '(' {
				depth++
				started = true
			} else if c == ')' {
				depth--
			}
		}
		sb.WriteString(line)
		if started && depth <= 0 {
			return sb.String()
		}
	}
}

// parseValues parses ((name val) (name val) ...) where val is #x.. / #b.. / true / false / (_ bvN W)
func parseValues(txt string) map[string]uint64 {
	res := map[string]uint64{}
	toks := tokenize(txt)
	// expect ( ( name val ) ... )
	i := 0
	if i < len(toks) && toks[i] == "(" {
		i++
	}
	for i < len(toks) {
		if toks[i] != "(" {
			i++
			continue
		}
		i++
		if i >= len(toks) {
			break
		}
		// name may itself be an s-expr (we only ask for plain vars, so it's a token)
		name := toks[i]
		i++
		if i >= len(toks) {
			break
		}
		var val uint64
		ok := false
		if toks[i] == "(" {
			// (_ bv123 64) or (fp ...) etc
			j := i
			d := 0
			var inner []string
			for j < len(toks) {
				if toks[j] == "(" {
					d++
				} else if toks[j] == ")" {
					d--
				}
				inner = append(inner, toks[j])
				j++
				if d == 0 {
					break
				}
			}
			if len(inner) >= 4 && inner[1] == "_" && strings.HasPrefix(inner[2], "bv") {
				v, err := strconv.ParseUint(inner[2][2:], 10, 64)
				if err == nil {
					val, ok = v, true
				}
			}
			i = j
		} else {
			t := toks[i]
			i++
			switch {
			case strings.HasPrefix(t, "#x"):
				v, err := strconv.ParseUint(t[2:], 16, 64)
				if err == nil {
					val, ok = v, true
				}
			case strings.HasPrefix(t, "#b"):
				v, err := strconv.ParseUint(t[2:], 2, 64)
				if err == nil {
					val, ok = v, true
				}
			case t == "true":
				val, ok = 1, true
			case t == "false":
				val, ok = 0, true
			}
		}
		if ok {
			res[name] = val
		}
		// skip to closing paren of this pair
		for i < len(toks) && toks[i] != ")" {
			i++
		}
		i++
	}
	return res
}

func tokenize(s string) []string {
	var toks []string
	cur := strings.Builder{}
	flush := func() {
		if cur.Len() > 0 {
			toks = append(toks, cur.String())
			cur.Reset()
		}
	}
	for _, c := range s {
		switch c {
		case '(', ')':
			flush()
			toks = append(toks, string(c))
		case ' ', '\n', '\t', '\r':
			flush()
		default:
			cur.WriteRune(c)
		}
	}
	flush()
	return toks
}


// CrossCheck re-decides (current stack AND extra) on another solver process from scratch: the second process is reset,
// given every declaration and every asserted formula of this one, then extra. Used to diff two solver
// implementations on the very queries whose `unsat` verdict a claim rests on.
func (s *Solver) CrossCheck(other *Solver, extra *Term) string {
	s.declare(extra)
	other.send("(reset)")
	other.send("(set-option :produce-models true)")
	if strings.HasPrefix(other.kind, "cvc5") {
		other.send("(set-logic ALL)")
	}
	for _, d := range s.decls {
		other.send(d)
	}
	for _, lvl := range s.stack {
		for _, a := range lvl {
			other.send("(assert " + a + ")")
		}
	}
	other.send("(assert " + extra.SMT() + ")")
	return other.Check()
}
