package engine

import (
	"encoding/json"
	"fmt"
	"go/types"
	"strconv"
	"strings"

	"golang.org/x/tools/go/ssa"
)

// M3 (part): encoding/json as an invertible opaque codec. Concrete map[string]string values are
// rendered as real JSON; everything else becomes a token that Unmarshal maps back to a copy.

const jsonTokenPrefix = "\x00JSON#"

func (p *Path) deepCopy(v Value) Value {
	switch x := v.(type) {
	case *StructVal:
		n := &StructVal{F: make([]Value, len(x.F))}
		for i, f := range x.F {
			n.F[i] = p.deepCopy(f)
		}
		return n
	case *MapVal:
		if x == nil || x.Nil {
			return x
		}
		n := &MapVal{KT: x.KT, VT: x.VT}
		for _, e := range x.Entries {
			n.Entries = append(n.Entries, &MapEntry{K: e.K, V: p.deepCopy(e.V)})
		}
		return n
	case *ArrayVal:
		return copyVal(x)
	}
	return v
}

func (p *Path) bytesToSlice(bs []*Term) *SliceVal {
	o := p.newArrayObj(types.Typ[types.Byte], len(bs))
	arr := o.Val.(*ArrayVal)
	for i, b := range bs {
		arr.E[i] = b
	}
	return &SliceVal{Obj: o, Len: len(bs), Cap: len(bs)}
}

func registerJSON(e *Engine) {
	I := e.Intrinsics
	I["encoding/json.Marshal"] = func(p *Path, fn *ssa.Function, a []Value) Value {
		iv := a[0].(*IfaceVal)
		var payload Value
		if !iv.IsNil() {
			payload = iv.V
			if ptr, ok := payload.(*Pointer); ok && !ptr.IsNil() {
				payload = ptr.load()
			}
		}
		if m, ok := payload.(*MapVal); ok {
			if m == nil || m.Nil {
				return TupleVal{p.bytesToSlice(StrC("null").B), NilIface}
			}
			native := map[string]string{}
			conc := true
			for _, en := range m.Entries {
				k, ok1 := en.K.(*StrVal).Concrete()
				v, ok2 := en.V.(*StrVal).Concrete()
				if !ok1 || !ok2 {
					conc = false
					break
				}
				native[k] = v
			}
			if conc {
				b, _ := json.Marshal(native)
				return TupleVal{p.bytesToSlice(StrC(string(b)).B), NilIface}
			}
		}
		toks, _ := p.ghost["jsontokens"].([]Value)
		toks = append(toks, p.deepCopy(payload))
		p.ghost["jsontokens"] = toks
		return TupleVal{p.bytesToSlice(StrC(fmt.Sprintf("%s%d", jsonTokenPrefix, len(toks)-1)).B), NilIface}
	}
	I["encoding/json.Unmarshal"] = func(p *Path, fn *ssa.Function, a []Value) Value {
		data := StrFromTerms(bytesOf(a[0]))
		target := a[1].(*IfaceVal).V.(*Pointer)
		c, ok := data.Concrete()
		if !ok {
			if p.ghost["json.symbolic.ok"] != nil {
				// harness declared that opaque symbolic payloads decode to "anything or error"
				if p.Branch(p.Fresh("json.decode.fails", BoolSort)) {
					return p.errVal("invalid character in JSON input")
				}
				return NilIface
			}
			p.unsupported("json.Unmarshal of symbolic bytes")
		}
		if strings.HasPrefix(c, jsonTokenPrefix) {
			i, err := strconv.Atoi(c[len(jsonTokenPrefix):])
			toks, _ := p.ghost["jsontokens"].([]Value)
			if err != nil || i >= len(toks) {
				return p.errVal("invalid JSON token")
			}
			p.jsonAssign(target, p.deepCopy(toks[i]))
			return NilIface
		}
		cur := target.load()
		switch cv := cur.(type) {
		case *MapVal:
			var native map[string]string
			if err := json.Unmarshal([]byte(c), &native); err != nil {
				return p.errVal(err.Error())
			}
			if native == nil {
				if c == "null" {
					target.store(&MapVal{Nil: true, KT: cv.KT, VT: cv.VT})
				}
				return NilIface
			}
			m := cv
			if m.Nil {
				m = &MapVal{KT: cv.KT, VT: cv.VT}
			}
			// deterministic order
			keys := make([]string, 0, len(native))
			for k := range native {
				keys = append(keys, k)
			}
			sortStrings(keys)
			for _, k := range keys {
				p.mapStore(m, StrC(k), StrC(native[k]))
			}
			target.store(m)
			return NilIface
		}
		// a struct target: concrete JSON object, fields matched by name (strings, integers, string maps)
		var anyv interface{}
		if err := json.Unmarshal([]byte(c), &anyv); err != nil {
			return p.errVal(err.Error())
		}
		obj, isObj := anyv.(map[string]interface{})
		sv, isStruct := cur.(*StructVal)
		st, _ := target.Obj.Typ.Underlying().(*types.Struct)
		if !isObj || !isStruct || st == nil || len(target.Path) != 0 {
			p.unsupported("json.Unmarshal of real JSON into %T", cur)
		}
		for i := 0; i < st.NumFields(); i++ {
			val, ok := obj[st.Field(i).Name()]
			if !ok {
				continue
			}
			switch x := val.(type) {
			case string:
				if _, isStr := sv.F[i].(*StrVal); isStr {
					sv.F[i] = StrC(x)
				}
			case float64:
				if t, isT := sv.F[i].(*Term); isT && t.S.K == KBV {
					sv.F[i] = BVCi(t.S.W, int64(x))
				}
			case map[string]interface{}:
				if m, isM := sv.F[i].(*MapVal); isM {
					nm := &MapVal{KT: m.KT, VT: m.VT}
					keys := make([]string, 0, len(x))
					for k := range x {
						keys = append(keys, k)
					}
					sortStrings(keys)
					for _, k := range keys {
						if vs, ok := x[k].(string); ok {
							p.mapStore(nm, StrC(k), StrC(vs))
						}
					}
					sv.F[i] = nm
				}
			}
		}
		target.store(sv)
		return NilIface
	}
}

func sortStrings(s []string) {
	for i := 1; i < len(s); i++ {
		for j := i; j > 0 && s[j] < s[j-1]; j-- {
			s[j], s[j-1] = s[j-1], s[j]
		}
	}
}


// jsonAssign stores a decoded value the way encoding/json does: struct fields are overwritten one by
// one, but a non-nil map already present in the target is reused and merged into (existing keys that the
// JSON object does not mention survive); a JSON null resets the map to nil.
func (p *Path) jsonAssign(target *Pointer, v Value) {
	cur := target.load()
	switch nv := v.(type) {
	case *StructVal:
		cs, ok := cur.(*StructVal)
		if !ok || len(cs.F) != len(nv.F) {
			p.storeTo(target, nv)
			return
		}
		for i := range nv.F {
			p.jsonAssign(target.Sub(i), nv.F[i])
		}
	case *MapVal:
		cm, ok := cur.(*MapVal)
		if !ok || nv == nil || nv.Nil || cm == nil || cm.Nil {
			target.store(nv)
			return
		}
		for _, e := range nv.Entries {
			p.mapStore(cm, e.K, e.V)
		}
	default:
		target.store(v)
	}
}
