package engine

import (
	"fmt"
	"go/constant"
	"go/token"
	"go/types"
	"math"
	"strings"

	"golang.org/x/tools/go/ssa"
)

// abortPath terminates the current path (not a Go panic of the program under test).
type abortPath struct {
	Kind string // "infeasible", "unsupported", "bound", "stop"
	Msg  string
}

// goPanic is a simulated panic of the program under test.
type goPanic struct {
	Val   Value
	Msg   string
	Stack []string
}

type deferred struct {
	fn   Value
	args []Value
	call *ssa.CallCommon
}

type frame struct {
	fn        *ssa.Function
	locals    map[ssa.Value]Value
	defers    []deferred
	block     *ssa.BasicBlock
	prev      *ssa.BasicBlock
	symLoops  map[*ssa.BasicBlock]int
	results   []Value
	panicking *goPanic
}

type fnInfo struct {
	name string
	repl *ssa.Function
	intr Intrinsic
}

type Intrinsic func(p *Path, fn *ssa.Function, args []Value) Value

func (p *Path) info(fn *ssa.Function) *fnInfo {
	e := p.E
	if fi, ok := e.fnInfos[fn]; ok {
		return fi
	}
	e.mu.Lock()
	defer e.mu.Unlock()
	name := fn.String()
	if fn.Origin() != nil {
		name = fn.Origin().String()
	}
	fi := &fnInfo{name: name}
	if r, ok := e.Replace[name]; ok {
		fi.repl = r
	}
	if in, ok := e.Intrinsics[name]; ok {
		fi.intr = in
	}
	n := make(map[*ssa.Function]*fnInfo, len(e.fnInfos)+1)
	for k, v := range e.fnInfos {
		n[k] = v
	}
	n[fn] = fi
	e.fnInfos = n
	return fi
}

func (p *Path) unsupported(format string, a ...interface{}) {
	panic(&abortPath{Kind: "unsupported", Msg: fmt.Sprintf(format, a...)})
}

func (p *Path) gopanic(msg string, v Value) {
	var st []string
	for i := len(p.stack) - 1; i >= 0 && len(st) < 12; i-- {
		st = append(st, p.stack[i])
	}
	panic(&goPanic{Val: v, Msg: msg, Stack: st})
}

// CallFn calls an SSA function with arguments (receiver first) and free variables.
func (p *Path) CallFn(fn *ssa.Function, args []Value, free []Value) Value {
	fi := p.info(fn)
	if fi.repl != nil && !p.inModel(fn) {
		fn = fi.repl
		fi = p.info(fn)
	}
	if fi.intr != nil {
		return fi.intr(p, fn, args)
	}
	if fn.Blocks == nil {
		if p.lenient {
			return p.lenientResult(fn)
		}
		p.unsupported("external function without model: %s", fi.name)
	}
	p.depth++
	if p.depth > 400 {
		p.unsupported("call depth exceeded in %s", fi.name)
	}
	p.stack = append(p.stack, fi.name)
	if p.funcs == nil {
		p.funcs = map[string]int{}
	}
	if strings.HasPrefix(fi.name, "github.com/pojntfx/stfs/") || strings.HasPrefix(fi.name, "(*github.com/pojntfx/stfs/") || strings.HasPrefix(fi.name, "(github.com/pojntfx/stfs/") {
		if !strings.Contains(fi.name, "verifmodel") && !strings.Contains(fi.name, "Harness_") {
			p.funcs[fi.name]++
		}
	}
	fr := &frame{fn: fn, locals: make(map[ssa.Value]Value, 32)}
	for i, prm := range fn.Params {
		if i < len(args) {
			fr.locals[prm] = args[i]
		}
	}
	for i, fv := range fn.FreeVars {
		fr.locals[fv] = free[i]
	}
	var ret Value
	func() {
		defer func() {
			p.depth--
			p.stack = p.stack[:len(p.stack)-1]
			if r := recover(); r != nil {
				if gp, ok := r.(*goPanic); ok {
					fr.panicking = gp
					p.depth++
					p.stack = append(p.stack, fi.name+"[defers]")
					func() {
						defer func() { p.depth--; p.stack = p.stack[:len(p.stack)-1] }()
						p.runDefers(fr)
					}()
					if fr.panicking == nil {
						// recovered: return zero/named results
						ret = p.recoveredResult(fr)
						return
					}
					panic(gp)
				}
				panic(r)
			}
		}()
		ret = p.run(fr)
	}()
	return ret
}

func (p *Path) recoveredResult(fr *frame) Value {
	res := fr.fn.Signature.Results()
	if res.Len() == 0 {
		return nil
	}
	if res.Len() == 1 {
		return p.E.zero(res.At(0).Type())
	}
	return p.E.zero(res)
}

func (p *Path) lenientResult(fn *ssa.Function) Value {
	res := fn.Signature.Results()
	if res.Len() == 0 {
		return nil
	}
	if res.Len() == 1 {
		return p.E.zero(res.At(0).Type())
	}
	return p.E.zero(res)
}

func (p *Path) runDefers(fr *frame) {
	for len(fr.defers) > 0 {
		d := fr.defers[len(fr.defers)-1]
		fr.defers = fr.defers[:len(fr.defers)-1]
		p.curFrame = fr
		p.callValue(d.fn, d.args, d.call)
	}
}

func (p *Path) run(fr *frame) Value {
	fr.block = fr.fn.Blocks[0]
	for {
		p.steps++
		if p.steps&0xfff == 0 && p.X != nil && p.X.expired() {
			panic(&abortPath{Kind: "bound", Msg: "time budget exceeded"})
		}
		if p.steps > p.E.MaxSteps {
			panic(&abortPath{Kind: "bound", Msg: "step budget exceeded"})
		}
		var next *ssa.BasicBlock
		for _, ins := range fr.block.Instrs {
			switch in := ins.(type) {
			case *ssa.Phi:
				for i, pred := range fr.block.Preds {
					if pred == fr.prev {
						fr.locals[in] = p.get(fr, in.Edges[i])
						break
					}
				}
			case *ssa.Jump:
				next = fr.block.Succs[0]
			case *ssa.If:
				c := p.get(fr, in.Cond).(*Term)
				var taken bool
				if c.IsConst() {
					taken = c.C == 1
				} else {
					if fr.symLoops == nil {
						fr.symLoops = map[*ssa.BasicBlock]int{}
					}
					fr.symLoops[fr.block]++
					if fr.symLoops[fr.block] > p.unwindBound() {
						if p.unwindAssert != "" {
							p.note(fmt.Sprintf("loop in %s exceeded the unwinding bound %d", fr.fn.String(), p.unwindBound()))
							id := p.unwindAssert
							p.unwindAssert = ""
							p.Assert(id, FalseT)
						}
						panic(&abortPath{Kind: "unwind", Msg: fmt.Sprintf("unwinding bound %d exceeded in %s block %d", p.E.Unwind, fr.fn.String(), fr.block.Index)})
					}
					taken = p.Branch(c)
				}
				if taken {
					next = fr.block.Succs[0]
				} else {
					next = fr.block.Succs[1]
				}
			case *ssa.Return:
				var ret Value
				switch len(in.Results) {
				case 0:
				case 1:
					ret = p.get(fr, in.Results[0])
				default:
					tv := make(TupleVal, len(in.Results))
					for i, r := range in.Results {
						tv[i] = p.get(fr, r)
					}
					ret = tv
				}
				return ret
			case *ssa.Panic:
				v := p.get(fr, in.X)
				p.gopanic("panic: "+p.describePanic(v), v)
			default:
				p.exec(fr, ins)
			}
		}
		if next == nil {
			p.unsupported("block without terminator in %s", fr.fn.String())
		}
		fr.prev = fr.block
		fr.block = next
	}
}

func (p *Path) describePanic(v Value) string {
	if iv, ok := v.(*IfaceVal); ok && !iv.IsNil() {
		if s, ok := iv.V.(*StrVal); ok {
			return s.String()
		}
		if p.isErrorType(iv.T) {
			func() {
				defer func() { recover() }()
			}()
			return "error value of type " + iv.T.String() + " " + p.errorText(iv)
		}
		return iv.T.String()
	}
	return showValue(v)
}

func (p *Path) isErrorType(t types.Type) bool {
	ms := p.E.Prog.MethodSets.MethodSet(t)
	return ms.Lookup(nil, "Error") != nil
}

func (p *Path) errorText(iv *IfaceVal) (s string) {
	defer func() {
		if r := recover(); r != nil {
			s = "<?>"
		}
	}()
	r := p.invoke(iv, "Error", nil, nil)
	if sv, ok := r.(*StrVal); ok {
		return sv.String()
	}
	return "<?>"
}

func (p *Path) get(fr *frame, v ssa.Value) Value {
	switch x := v.(type) {
	case *ssa.Const:
		return p.constVal(x)
	case *ssa.Global:
		return &Pointer{Obj: p.global(x)}
	case *ssa.Function:
		return &FuncVal{Fn: x}
	case *ssa.Builtin:
		return &FuncVal{Intrinsic: "builtin:" + x.Name()}
	}
	r, ok := fr.locals[v]
	if !ok {
		p.unsupported("value %s (%T) not defined in %s", v.Name(), v, fr.fn.String())
	}
	return r
}

func (p *Path) constVal(c *ssa.Const) Value {
	t := c.Type()
	if c.Value == nil {
		return p.E.zero(t)
	}
	switch u := t.Underlying().(type) {
	case *types.Basic:
		if w, _, ok := basicWidth(u); ok {
			if v, ok := constant.Int64Val(constant.ToInt(c.Value)); ok {
				return BVCi(w, v)
			}
			v, _ := constant.Uint64Val(constant.ToInt(c.Value))
			return BVC(w, v)
		}
		switch u.Kind() {
		case types.Bool, types.UntypedBool:
			return BoolC(constant.BoolVal(c.Value))
		case types.String, types.UntypedString:
			return StrC(constant.StringVal(c.Value))
		case types.Float64, types.Float32, types.UntypedFloat:
			f, _ := constant.Float64Val(c.Value)
			return FPConst(math.Float64bits(f))
		}
	}
	p.unsupported("const of type %v", t)
	return nil
}

func (p *Path) global(g *ssa.Global) *Object {
	if o, ok := p.globals[g]; ok {
		return o
	}
	et := g.Type().(*types.Pointer).Elem()
	o := p.newObj(et, "global:"+g.String())
	o.Val = p.E.globalInit(p, g, et)
	p.globals[g] = o
	return o
}

func (p *Path) newObj(t types.Type, tag string) *Object {
	p.nextObj++
	return &Object{ID: p.nextObj, Val: p.E.zero(t), Typ: t, Tag: tag}
}

func (p *Path) newArrayObj(elem types.Type, n int) *Object {
	p.nextObj++
	av := &ArrayVal{E: make([]Value, n)}
	z := p.E.zero(elem)
	switch z.(type) {
	case *StructVal, *ArrayVal:
		for i := range av.E {
			av.E[i] = p.E.zero(elem)
		}
	default:
		av.Zero = z
	}
	return &Object{ID: p.nextObj, Val: av, Typ: types.NewArray(elem, int64(n))}
}

func (p *Path) load(ptr *Pointer) Value {
	if ptr.IsNil() {
		p.gopanic("nil pointer dereference", nil)
	}
	return copyVal(ptr.load())
}

func (p *Path) storeTo(ptr *Pointer, v Value) {
	if ptr.IsNil() {
		p.gopanic("nil pointer dereference (store)", nil)
	}
	if p.onStore != nil {
		p.onStore(ptr)
	}
	ptr.store(copyVal(v))
}

func (p *Path) exec(fr *frame, ins ssa.Instruction) {
	switch in := ins.(type) {
	case *ssa.DebugRef:
	case *ssa.Alloc:
		et := in.Type().(*types.Pointer).Elem()
		o := p.newObj(et, in.Comment)
		o.Heap = in.Heap
		fr.locals[in] = &Pointer{Obj: o}
	case *ssa.UnOp:
		fr.locals[in] = p.unop(fr, in)
	case *ssa.BinOp:
		fr.locals[in] = p.binop(in.Op, p.get(fr, in.X), p.get(fr, in.Y), in.X.Type(), in.Y.Type())
	case *ssa.Call:
		p.curFrame = fr
		fr.locals[in] = p.doCall(fr, &in.Call)
	case *ssa.ChangeInterface:
		fr.locals[in] = p.get(fr, in.X)
	case *ssa.ChangeType:
		fr.locals[in] = p.get(fr, in.X)
	case *ssa.Convert:
		fr.locals[in] = p.convert(p.get(fr, in.X), in.X.Type(), in.Type())
	case *ssa.Extract:
		fr.locals[in] = p.get(fr, in.Tuple).(TupleVal)[in.Index]
	case *ssa.Field:
		fr.locals[in] = copyVal(p.get(fr, in.X).(*StructVal).F[in.Field])
	case *ssa.FieldAddr:
		ptr := p.get(fr, in.X).(*Pointer)
		if ptr.IsNil() {
			p.gopanic("nil pointer dereference (field "+in.String()+")", nil)
		}
		fr.locals[in] = ptr.Sub(in.Field)
	case *ssa.Index:
		x := p.get(fr, in.X)
		idx := p.get(fr, in.Index).(*Term)
		switch xv := x.(type) {
		case *ArrayVal:
			i := p.index(idx, len(xv.E), isSigned(in.Index.Type()))
			fr.locals[in] = copyVal(xv.Get(i))
		case *StrVal:
			i := p.index(idx, len(xv.B), isSigned(in.Index.Type()))
			fr.locals[in] = xv.B[i]
		default:
			p.unsupported("Index on %T", x)
		}
	case *ssa.IndexAddr:
		x := p.get(fr, in.X)
		idx := p.get(fr, in.Index).(*Term)
		switch xv := x.(type) {
		case *SliceVal:
			i := p.index(idx, xv.lenOrZero(), isSigned(in.Index.Type()))
			fr.locals[in] = &Pointer{Obj: xv.Obj, Path: []int{xv.Off + i}}
		case *Pointer:
			if xv.IsNil() {
				p.gopanic("nil pointer dereference (indexaddr)", nil)
			}
			arr := xv.load().(*ArrayVal)
			i := p.index(idx, len(arr.E), isSigned(in.Index.Type()))
			fr.locals[in] = xv.Sub(i)
		default:
			p.unsupported("IndexAddr on %T", x)
		}
	case *ssa.Lookup:
		x := p.get(fr, in.X)
		switch xv := x.(type) {
		case *StrVal:
			idx := p.get(fr, in.Index).(*Term)
			i := p.index(idx, len(xv.B), isSigned(in.Index.Type()))
			fr.locals[in] = xv.B[i]
		case *MapVal:
			k := p.get(fr, in.Index)
			v, ok := p.mapLookup(xv, k)
			if !ok {
				v = p.E.zero(xv.VT)
			}
			if in.CommaOk {
				fr.locals[in] = TupleVal{copyVal(v), BoolC(ok)}
			} else {
				fr.locals[in] = copyVal(v)
			}
		default:
			p.unsupported("Lookup on %T", x)
		}
	case *ssa.MakeClosure:
		fn := in.Fn.(*ssa.Function)
		free := make([]Value, len(in.Bindings))
		for i, b := range in.Bindings {
			free[i] = p.get(fr, b)
		}
		fr.locals[in] = &FuncVal{Fn: fn, Free: free}
	case *ssa.MakeInterface:
		fr.locals[in] = &IfaceVal{T: in.X.Type(), V: p.get(fr, in.X)}
	case *ssa.MakeMap:
		mt := in.Type().Underlying().(*types.Map)
		fr.locals[in] = &MapVal{KT: mt.Key(), VT: mt.Elem()}
	case *ssa.MakeSlice:
		n := int(p.Concretize(p.get(fr, in.Len).(*Term), "makeslice.len"))
		c := int(p.Concretize(p.get(fr, in.Cap).(*Term), "makeslice.cap"))
		if n < 0 || c < n {
			p.gopanic("makeslice: len out of range", nil)
		}
		if c > 1<<22 {
			p.unsupported("makeslice too large: %d", c)
		}
		et := in.Type().Underlying().(*types.Slice).Elem()
		o := p.newArrayObj(et, c)
		fr.locals[in] = &SliceVal{Obj: o, Off: 0, Len: n, Cap: c}
	case *ssa.MakeChan:
		fr.locals[in] = &ChanVal{}
	case *ssa.MapUpdate:
		m := p.get(fr, in.Map).(*MapVal)
		if m.Nil {
			p.gopanic("assignment to entry in nil map", nil)
		}
		p.mapStore(m, p.get(fr, in.Key), copyVal(p.get(fr, in.Value)))
	case *ssa.Range:
		x := p.get(fr, in.X)
		switch xv := x.(type) {
		case *StrVal:
			fr.locals[in] = &RangeIter{Str: xv}
		case *MapVal:
			keys := make([]*MapEntry, len(xv.Entries))
			copy(keys, xv.Entries)
			fr.locals[in] = &RangeIter{Map: xv, Keys: keys}
		default:
			p.unsupported("Range on %T", x)
		}
	case *ssa.Next:
		it := p.get(fr, in.Iter).(*RangeIter)
		fr.locals[in] = p.next(it, in)
	case *ssa.Slice:
		fr.locals[in] = p.slice(fr, in)
	case *ssa.Store:
		p.storeTo(p.get(fr, in.Addr).(*Pointer), p.get(fr, in.Val))
	case *ssa.TypeAssert:
		fr.locals[in] = p.typeAssert(p.get(fr, in.X).(*IfaceVal), in.AssertedType, in.CommaOk)
	case *ssa.Defer:
		fnv, args := p.prepareCall(fr, &in.Call)
		fr.defers = append(fr.defers, deferred{fn: fnv, args: args, call: &in.Call})
	case *ssa.RunDefers:
		p.runDefers(fr)
	case *ssa.Go:
		fnv, args := p.prepareCall(fr, &in.Call)
		p.spawn(fnv, args, &in.Call)
	case *ssa.Send:
		ch := p.get(fr, in.Chan).(*ChanVal)
		ch.Q = append(ch.Q, p.get(fr, in.X))
	case *ssa.SliceToArrayPointer:
		s := p.get(fr, in.X).(*SliceVal)
		if s.IsNil() {
			fr.locals[in] = NilPtr
		} else {
			p.unsupported("SliceToArrayPointer")
		}
	default:
		p.unsupported("instruction %T: %s", ins, ins.String())
	}
}

func (s *SliceVal) lenOrZero() int {
	if s == nil {
		return 0
	}
	return s.Len
}

// index resolves an index term against a concrete length, raising a Go panic if out of range is feasible.
func (p *Path) index(idx *Term, n int, signed bool) int {
	if !signed && idx.S.W < 64 {
		idx = ZExt(idx, 64)
	}
	if idx.IsConst() {
		i := idx.Int64()
		if i < 0 || i >= int64(n) {
			p.gopanic(fmt.Sprintf("index out of range [%d] with length %d", i, n), nil)
		}
		return int(i)
	}
	w := idx.S.W
	inRange := And(SLe(BVC(w, 0), idx), SLt(idx, BVCi(w, int64(n))))
	if !p.Branch(inRange) {
		p.gopanic(fmt.Sprintf("index out of range [symbolic] with length %d", n), nil)
	}
	return int(p.Concretize(idx, "index"))
}

func (p *Path) unop(fr *frame, in *ssa.UnOp) Value {
	x := p.get(fr, in.X)
	switch in.Op {
	case token.MUL:
		ptr := x.(*Pointer)
		if ptr.IsNil() {
			p.gopanic("nil pointer dereference (load "+in.X.Name()+" in "+fr.fn.String()+")", nil)
		}
		if p.onLoad != nil {
			p.onLoad(ptr)
		}
		return copyVal(ptr.load())
	case token.NOT:
		return Not(x.(*Term))
	case token.SUB:
		t := x.(*Term)
		if t.S.K == KFP {
			return FPUn("fp.neg", t)
		}
		return Neg(t)
	case token.XOR:
		return BNot(x.(*Term))
	case token.ARROW:
		ch := x.(*ChanVal)
		if ch == nil || len(ch.Q) == 0 {
			p.unsupported("receive from empty channel")
		}
		v := ch.Q[0]
		ch.Q = ch.Q[1:]
		if in.CommaOk {
			return TupleVal{v, TrueT}
		}
		return v
	}
	p.unsupported("unop %v", in.Op)
	return nil
}

func isSigned(t types.Type) bool {
	if b, ok := t.Underlying().(*types.Basic); ok {
		_, s, ok := basicWidth(b)
		return ok && s
	}
	return false
}

func (p *Path) binop(op token.Token, x, y Value, xt, yt types.Type) Value {
	switch a := x.(type) {
	case *Term:
		b, ok := y.(*Term)
		if !ok {
			p.unsupported("binop term with %T", y)
		}
		if a.S.K == KBool {
			switch op {
			case token.EQL:
				return Eq(a, b)
			case token.NEQ:
				return Ne(a, b)
			case token.AND:
				return And(a, b)
			case token.OR:
				return Or(a, b)
			}
			p.unsupported("bool binop %v", op)
		}
		if a.S.K == KFP {
			switch op {
			case token.ADD:
				return FPBin("fp.add", a, b)
			case token.SUB:
				return FPBin("fp.sub", a, b)
			case token.MUL:
				return FPBin("fp.mul", a, b)
			case token.QUO:
				return FPBin("fp.div", a, b)
			case token.EQL:
				return FPCmp("fp.eq", a, b)
			case token.NEQ:
				return Not(FPCmp("fp.eq", a, b))
			case token.LSS:
				return FPCmp("fp.lt", a, b)
			case token.LEQ:
				return FPCmp("fp.leq", a, b)
			case token.GTR:
				return FPCmp("fp.gt", a, b)
			case token.GEQ:
				return FPCmp("fp.geq", a, b)
			}
			p.unsupported("fp binop %v", op)
		}
		signed := isSigned(xt)
		switch op {
		case token.ADD:
			return Add(a, b)
		case token.SUB:
			return Sub(a, b)
		case token.MUL:
			return Mul(a, b)
		case token.QUO, token.REM:
			z := Eq(b, BVC(b.S.W, 0))
			if !z.IsFalse() {
				if p.Branch(z) {
					p.gopanic("integer divide by zero", nil)
				}
			}
			if op == token.QUO {
				if signed {
					return SDiv(a, b)
				}
				return UDiv(a, b)
			}
			if signed {
				return SRem(a, b)
			}
			return URem(a, b)
		case token.AND:
			return BAnd(a, b)
		case token.OR:
			return BOr(a, b)
		case token.XOR:
			return BXor(a, b)
		case token.AND_NOT:
			return BAnd(a, BNot(b))
		case token.SHL, token.SHR:
			// shift count may have a different width/signedness
			cnt := b
			if isSigned(yt) {
				neg := SLt(cnt, BVC(cnt.S.W, 0))
				if !neg.IsFalse() && p.Branch(neg) {
					p.gopanic("negative shift amount", nil)
				}
			}
			w := a.S.W
			var c2 *Term
			if cnt.S.W == w {
				c2 = cnt
			} else if cnt.S.W < w {
				c2 = ZExt(cnt, w)
			} else {
				big := ULe(BVC(cnt.S.W, uint64(w)), cnt)
				c2 = Ite(big, BVC(w, uint64(w)), Extract(cnt, w-1, 0))
			}
			if op == token.SHL {
				return Shl(a, c2)
			}
			if signed {
				return AShr(a, c2)
			}
			return LShr(a, c2)
		case token.EQL:
			return Eq(a, b)
		case token.NEQ:
			return Ne(a, b)
		case token.LSS:
			if signed {
				return SLt(a, b)
			}
			return ULt(a, b)
		case token.LEQ:
			if signed {
				return SLe(a, b)
			}
			return ULe(a, b)
		case token.GTR:
			if signed {
				return SLt(b, a)
			}
			return ULt(b, a)
		case token.GEQ:
			if signed {
				return SLe(b, a)
			}
			return ULe(b, a)
		}
		p.unsupported("int binop %v", op)
	case *StrVal:
		b := y.(*StrVal)
		switch op {
		case token.ADD:
			nb := make([]*Term, 0, len(a.B)+len(b.B))
			nb = append(nb, a.B...)
			nb = append(nb, b.B...)
			return StrFromTerms(nb)
		case token.EQL:
			return StrEq(a, b)
		case token.NEQ:
			return Not(StrEq(a, b))
		case token.LSS:
			return StrLt(a, b)
		case token.GTR:
			return StrLt(b, a)
		case token.LEQ:
			return Not(StrLt(b, a))
		case token.GEQ:
			return Not(StrLt(a, b))
		}
		p.unsupported("string binop %v", op)
	default:
		switch op {
		case token.EQL:
			return p.valueEq(x, y)
		case token.NEQ:
			return Not(p.valueEq(x, y))
		}
		p.unsupported("binop %v on %T", op, x)
	}
	return nil
}

func (p *Path) valueEq(x, y Value) *Term {
	switch a := x.(type) {
	case *Term:
		return Eq(a, y.(*Term))
	case *StrVal:
		return StrEq(a, y.(*StrVal))
	case *Pointer:
		switch b := y.(type) {
		case *Pointer:
			return BoolC(PtrEq(a, b))
		}
		return FalseT
	case *IfaceVal:
		b, ok := y.(*IfaceVal)
		if !ok {
			return FalseT
		}
		if a.IsNil() || b.IsNil() {
			return BoolC(a.IsNil() && b.IsNil())
		}
		if !types.Identical(a.T, b.T) {
			return FalseT
		}
		return p.valueEq(a.V, b.V)
	case *StructVal:
		b := y.(*StructVal)
		cs := []*Term{}
		for i := range a.F {
			cs = append(cs, p.valueEq(a.F[i], b.F[i]))
		}
		return And(cs...)
	case *ArrayVal:
		b := y.(*ArrayVal)
		cs := []*Term{}
		for i := range a.E {
			cs = append(cs, p.valueEq(a.Get(i), b.Get(i)))
		}
		return And(cs...)
	case *SliceVal:
		b := y.(*SliceVal)
		if a.IsNil() || b.IsNil() {
			return BoolC(a.IsNil() && b.IsNil())
		}
		p.unsupported("slice comparison")
	case *MapVal:
		b := y.(*MapVal)
		if a.Nil || b.Nil {
			return BoolC(a.Nil && b.Nil)
		}
		return BoolC(a == b)
	case *FuncVal:
		b := y.(*FuncVal)
		if a.Nil || b.Nil {
			return BoolC(a.Nil && b.Nil)
		}
		p.unsupported("func comparison")
	case *ChanVal:
		b, _ := y.(*ChanVal)
		return BoolC(a == b)
	case nil:
		return BoolC(y == nil)
	}
	p.unsupported("valueEq on %T", x)
	return nil
}

func (p *Path) convert(x Value, from, to types.Type) Value {
	fu, tu := from.Underlying(), to.Underlying()
	switch t := tu.(type) {
	case *types.Basic:
		if w, _, ok := basicWidth(t); ok {
			xt, ok := x.(*Term)
			if !ok {
				if _, isPtr := x.(*Pointer); isPtr {
					// unsafe.Pointer / uintptr conversions are not modelled
					p.unsupported("pointer to integer conversion")
				}
				p.unsupported("convert %T to int", x)
			}
			if xt.S.K == KFP {
				if r, ok := p.fpCut(xt, w, isSigned(to)); ok {
					return r
				}
				if isSigned(to) {
					return FP2SBV(xt, w)
				}
				return FP2UBV(xt, w)
			}
			return Resize(xt, w, isSigned(from))
		}
		switch t.Kind() {
		case types.Float64, types.Float32:
			xt := x.(*Term)
			if xt.S.K == KFP {
				return xt
			}
			if xt.IsConst() {
				if isSigned(from) {
					return FPConst(math.Float64bits(float64(xt.Int64())))
				}
				return FPConst(math.Float64bits(float64(xt.C)))
			}
			if isSigned(from) {
				return SBV2FP(xt)
			}
			return UBV2FP(xt)
		case types.String:
			switch xv := x.(type) {
			case *StrVal:
				return xv
			case *SliceVal:
				// []byte or []rune to string
				if xv.IsNil() {
					return StrC("")
				}
				et := fu.(*types.Slice).Elem().Underlying().(*types.Basic)
				if et.Kind() != types.Byte && et.Kind() != types.Uint8 {
					p.unsupported("[]rune to string")
				}
				arr := xv.Arr()
				b := make([]*Term, xv.Len)
				for i := 0; i < xv.Len; i++ {
					b[i] = arr.Get(xv.Off + i).(*Term)
				}
				return StrFromTerms(b)
			case *Term:
				// rune/int to string
				if xv.IsConst() {
					return StrC(string(rune(xv.Int64())))
				}
				p.unsupported("symbolic rune to string")
			}
		case types.UnsafePointer:
			return x
		case types.Bool:
			return x
		}
	case *types.Slice:
		// string to []byte / []rune
		if sv, ok := x.(*StrVal); ok {
			et := t.Elem().Underlying().(*types.Basic)
			if et.Kind() == types.Byte || et.Kind() == types.Uint8 {
				o := p.newArrayObj(t.Elem(), len(sv.B))
				arr := o.Val.(*ArrayVal)
				for i, b := range sv.B {
					arr.E[i] = b
				}
				return &SliceVal{Obj: o, Len: len(sv.B), Cap: len(sv.B)}
			}
			if c, ok := sv.Concrete(); ok {
				rs := []rune(c)
				o := p.newArrayObj(t.Elem(), len(rs))
				arr := o.Val.(*ArrayVal)
				for i, r := range rs {
					arr.E[i] = BVCi(32, int64(r))
				}
				return &SliceVal{Obj: o, Len: len(rs), Cap: len(rs)}
			}
			p.unsupported("symbolic string to []rune")
		}
		return x
	case *types.Pointer:
		return x
	}
	p.unsupported("convert %v -> %v (%T)", from, to, x)
	return nil
}

func (p *Path) slice(fr *frame, in *ssa.Slice) Value {
	x := p.get(fr, in.X)
	getIdx := func(v ssa.Value, def int) int {
		if v == nil {
			return def
		}
		return int(int64(p.Concretize(p.get(fr, v).(*Term), "slice.idx")))
	}
	switch xv := x.(type) {
	case *StrVal:
		lo := getIdx(in.Low, 0)
		hi := getIdx(in.High, len(xv.B))
		if lo < 0 || hi < lo || hi > len(xv.B) {
			p.gopanic(fmt.Sprintf("slice bounds out of range [%d:%d] with length %d", lo, hi, len(xv.B)), nil)
		}
		return StrFromTerms(xv.B[lo:hi])
	case *SliceVal:
		lo := getIdx(in.Low, 0)
		hi := getIdx(in.High, xv.lenOrZero())
		cp := xv.Cap
		mx := getIdx(in.Max, cp)
		if lo < 0 || hi < lo || hi > cp || mx > cp || mx < hi {
			p.gopanic(fmt.Sprintf("slice bounds out of range [%d:%d:%d] with capacity %d", lo, hi, mx, cp), nil)
		}
		if xv.IsNil() {
			return &SliceVal{}
		}
		return &SliceVal{Obj: xv.Obj, Off: xv.Off + lo, Len: hi - lo, Cap: mx - lo}
	case *Pointer:
		// pointer to array
		if xv.IsNil() {
			p.gopanic("nil pointer dereference (slice of *array)", nil)
		}
		arr := xv.load().(*ArrayVal)
		n := len(arr.E)
		lo := getIdx(in.Low, 0)
		hi := getIdx(in.High, n)
		mx := getIdx(in.Max, n)
		if lo < 0 || hi < lo || hi > n || mx > n || mx < hi {
			p.gopanic("slice bounds out of range (array)", nil)
		}
		if len(xv.Path) != 0 {
			// array embedded in another object: create a view object sharing the ArrayVal
			p.nextObj++
			o := &Object{ID: p.nextObj, Val: arr, Typ: nil, Tag: "arrayview"}
			return &SliceVal{Obj: o, Off: lo, Len: hi - lo, Cap: mx - lo}
		}
		return &SliceVal{Obj: xv.Obj, Off: lo, Len: hi - lo, Cap: mx - lo}
	}
	p.unsupported("slice of %T", x)
	return nil
}

func (p *Path) typeAssert(iv *IfaceVal, at types.Type, commaOk bool) Value {
	ok := false
	var res Value
	if !iv.IsNil() {
		if types.IsInterface(at) {
			if types.Implements(iv.T, at.Underlying().(*types.Interface)) {
				ok = true
				res = iv
			}
		} else if types.Identical(iv.T, at) {
			ok = true
			res = iv.V
		}
	}
	if commaOk {
		if !ok {
			res = p.E.zero(at)
		}
		return TupleVal{res, BoolC(ok)}
	}
	if !ok {
		dt := "nil"
		if !iv.IsNil() {
			dt = iv.T.String()
		}
		p.gopanic(fmt.Sprintf("interface conversion: %s is not %s", dt, at.String()), nil)
	}
	return res
}

func (p *Path) next(it *RangeIter, in *ssa.Next) Value {
	if in.IsString {
		s := it.Str
		if it.Pos >= len(s.B) {
			return TupleVal{FalseT, BVC(64, 0), BVC(32, 0)}
		}
		pos := it.Pos
		b := s.B[pos]
		// ASCII fast path; otherwise decide lead byte class
		isASCII := ULt(b, BVC(8, 0x80))
		if p.Branch(isASCII) {
			it.Pos++
			return TupleVal{TrueT, BVCi(64, int64(pos)), ZExt(b, 32)}
		}
		// multi-byte: concretize remaining bytes of this rune (bounded alphabets make this cheap)
		b0 := byte(p.Concretize(b, "utf8.lead"))
		n := 1
		switch {
		case b0 >= 0xC2 && b0 <= 0xDF:
			n = 2
		case b0 >= 0xE0 && b0 <= 0xEF:
			n = 3
		case b0 >= 0xF0 && b0 <= 0xF4:
			n = 4
		}
		buf := []byte{b0}
		for k := 1; k < n && pos+k < len(s.B); k++ {
			buf = append(buf, byte(p.Concretize(s.B[pos+k], "utf8.cont")))
		}
		r, size := decodeRune(buf)
		it.Pos += size
		return TupleVal{TrueT, BVCi(64, int64(pos)), BVCi(32, int64(r))}
	}
	// map
	for it.Pos < len(it.Keys) {
		e := it.Keys[it.Pos]
		it.Pos++
		// skip deleted entries
		live := false
		for _, c := range it.Map.Entries {
			if c == e {
				live = true
				break
			}
		}
		if !live {
			continue
		}
		return TupleVal{TrueT, e.K, copyVal(e.V)}
	}
	return TupleVal{FalseT, p.E.zero(it.Map.KT), p.E.zero(it.Map.VT)}
}

func decodeRune(b []byte) (rune, int) {
	rs := []rune(string(b))
	if len(rs) == 0 {
		return 0xFFFD, 1
	}
	r := rs[0]
	if r == 0xFFFD {
		return r, 1
	}
	return r, len(string(r))
}

// ---------- maps ----------

func (p *Path) keyEq(a, b Value) *Term { return p.valueEq(a, b) }

func (p *Path) mapLookup(m *MapVal, k Value) (Value, bool) {
	if m == nil || m.Nil {
		return nil, false
	}
	for _, e := range m.Entries {
		eq := p.keyEq(e.K, k)
		if eq.IsTrue() {
			return e.V, true
		}
		if eq.IsFalse() {
			continue
		}
		if p.Branch(eq) {
			return e.V, true
		}
	}
	return nil, false
}

func (p *Path) mapStore(m *MapVal, k, v Value) {
	for _, e := range m.Entries {
		eq := p.keyEq(e.K, k)
		if eq.IsTrue() {
			e.V = v
			return
		}
		if eq.IsFalse() {
			continue
		}
		if p.Branch(eq) {
			e.V = v
			return
		}
	}
	m.Entries = append(m.Entries, &MapEntry{K: k, V: v})
}

func (p *Path) mapDelete(m *MapVal, k Value) {
	if m == nil || m.Nil {
		return
	}
	for i, e := range m.Entries {
		eq := p.keyEq(e.K, k)
		if eq.IsFalse() {
			continue
		}
		if eq.IsTrue() || p.Branch(eq) {
			m.Entries = append(append([]*MapEntry{}, m.Entries[:i]...), m.Entries[i+1:]...)
			return
		}
	}
}

// ---------- calls ----------

func (p *Path) prepareCall(fr *frame, c *ssa.CallCommon) (Value, []Value) {
	args := make([]Value, 0, len(c.Args)+1)
	if c.IsInvoke() {
		recv := p.get(fr, c.Value)
		for _, a := range c.Args {
			args = append(args, p.get(fr, a))
		}
		return &boundInvoke{recv: recv.(*IfaceVal), method: c.Method}, args
	}
	fnv := p.get(fr, c.Value)
	for _, a := range c.Args {
		args = append(args, p.get(fr, a))
	}
	return fnv, args
}

type boundInvoke struct {
	recv   *IfaceVal
	method *types.Func
}

func (p *Path) doCall(fr *frame, c *ssa.CallCommon) Value {
	fnv, args := p.prepareCall(fr, c)
	return p.callValue(fnv, args, c)
}

func (p *Path) callValue(fnv Value, args []Value, c *ssa.CallCommon) Value {
	switch f := fnv.(type) {
	case *boundInvoke:
		return p.invoke(f.recv, f.method.Name(), f.method.Pkg(), args)
	case *FuncVal:
		if f.Nil {
			p.gopanic("call of nil function", nil)
		}
		if f.Intrinsic != "" {
			if strings.HasPrefix(f.Intrinsic, "builtin:") {
				return p.builtin(f.Intrinsic[8:], args, c)
			}
			in, ok := p.E.Intrinsics[f.Intrinsic]
			if !ok {
				p.unsupported("missing intrinsic %s", f.Intrinsic)
			}
			if f.Recv != nil {
				args = append([]Value{f.Recv}, args...)
			}
			return in(p, nil, args)
		}
		return p.CallFn(f.Fn, args, f.Free)
	}
	p.unsupported("call of %T", fnv)
	return nil
}

func (p *Path) invoke(recv *IfaceVal, name string, pkg *types.Package, args []Value) Value {
	if recv.IsNil() {
		p.gopanic("nil pointer dereference (method "+name+" on nil interface)", nil)
	}
	fn := p.E.lookupMethod(recv.T, pkg, name)
	if fn == nil {
		p.unsupported("method %s not found on %v", name, recv.T)
	}
	all := make([]Value, 0, len(args)+1)
	all = append(all, recv.V)
	all = append(all, args...)
	return p.CallFn(fn, all, nil)
}

func (e *Engine) lookupMethod(t types.Type, pkg *types.Package, name string) *ssa.Function {
	key := methodKey{t, name}
	e.mu.Lock()
	defer e.mu.Unlock()
	if f, ok := e.methodCache[key]; ok {
		return f
	}
	var f *ssa.Function
	ms := e.Prog.MethodSets.MethodSet(t)
	sel := ms.Lookup(pkg, name)
	if sel == nil {
		// try any package (unexported method from other pkg cannot match; exported ones ignore pkg)
		for i := 0; i < ms.Len(); i++ {
			if ms.At(i).Obj().Name() == name {
				sel = ms.At(i)
				break
			}
		}
	}
	if sel != nil {
		f = e.Prog.MethodValue(sel)
	}
	e.methodCache[key] = f
	return f
}

type methodKey struct {
	t    types.Type
	name string
}

func (p *Path) spawn(fnv Value, args []Value, c *ssa.CallCommon) {
	// sequential mode: run the goroutine to completion now
	p.goroutines++
	defer func() {
		if r := recover(); r != nil {
			if gp, ok := r.(*goPanic); ok {
				// a panic in a goroutine crashes the process
				p.reportGoroutinePanic(gp)
				return
			}
			panic(r)
		}
	}()
	saved := p.curThread
	child := p.goroutines
	if p.rs != nil && p.rs.active {
		child = saved*100 + p.goroutines
		p.rs.threads[child] = &threadMeta{parent: saved, parentSeq: p.rs.seq[saved]}
	}
	p.curThread = child
	defer func() { p.curThread = saved }()
	p.callValue(fnv, args, c)
}

func (p *Path) builtin(name string, args []Value, c *ssa.CallCommon) Value {
	switch name {
	case "len":
		switch x := args[0].(type) {
		case *StrVal:
			return BVCi(64, int64(len(x.B)))
		case *SliceVal:
			return BVCi(64, int64(x.lenOrZero()))
		case *MapVal:
			if x == nil || x.Nil {
				return BVC(64, 0)
			}
			return BVCi(64, int64(len(x.Entries)))
		case *ArrayVal:
			return BVCi(64, int64(len(x.E)))
		case *Pointer:
			return BVCi(64, int64(len(x.load().(*ArrayVal).E)))
		case *ChanVal:
			if x == nil {
				return BVC(64, 0)
			}
			return BVCi(64, int64(len(x.Q)))
		}
	case "cap":
		switch x := args[0].(type) {
		case *SliceVal:
			if x.IsNil() {
				return BVC(64, 0)
			}
			return BVCi(64, int64(x.Cap))
		case *ArrayVal:
			return BVCi(64, int64(len(x.E)))
		}
	case "append":
		s := args[0].(*SliceVal)
		var add []Value
		var et types.Type
		if c != nil {
			et = c.Args[0].Type().Underlying().(*types.Slice).Elem()
		}
		switch t := args[1].(type) {
		case *SliceVal:
			if !t.IsNil() {
				arr := t.Arr()
				for i := 0; i < t.Len; i++ {
					add = append(add, copyVal(arr.Get(t.Off+i)))
				}
			}
		case *StrVal:
			for _, b := range t.B {
				add = append(add, b)
			}
		}
		if len(add) == 0 {
			return s
		}
		n := s.lenOrZero()
		if !s.IsNil() && n+len(add) <= s.Cap {
			arr := s.Arr()
			for i, v := range add {
				arr.E[s.Off+n+i] = v
			}
			return &SliceVal{Obj: s.Obj, Off: s.Off, Len: n + len(add), Cap: s.Cap}
		}
		nc := (n + len(add)) * 2
		if nc < 4 {
			nc = 4
		}
		if et == nil {
			p.unsupported("append without type info")
		}
		o := p.newArrayObj(et, nc)
		narr := o.Val.(*ArrayVal)
		if !s.IsNil() {
			arr := s.Arr()
			for i := 0; i < n; i++ {
				narr.E[i] = arr.E[s.Off+i]
			}
		}
		for i, v := range add {
			narr.E[n+i] = v
		}
		return &SliceVal{Obj: o, Off: 0, Len: n + len(add), Cap: nc}
	case "copy":
		d := args[0].(*SliceVal)
		var src []Value
		switch t := args[1].(type) {
		case *SliceVal:
			if !t.IsNil() {
				arr := t.Arr()
				for i := 0; i < t.Len; i++ {
					src = append(src, arr.Get(t.Off+i))
				}
			}
		case *StrVal:
			for _, b := range t.B {
				src = append(src, b)
			}
		}
		n := d.lenOrZero()
		if len(src) < n {
			n = len(src)
		}
		if n > 0 {
			arr := d.Arr()
			for i := 0; i < n; i++ {
				arr.E[d.Off+i] = copyVal(src[i])
			}
		}
		return BVCi(64, int64(n))
	case "delete":
		p.mapDelete(args[0].(*MapVal), args[1])
		return nil
	case "panic":
		p.gopanic("panic: "+p.describePanic(args[0]), args[0])
	case "recover":
		fr := p.curFrame
		_ = fr
		return NilIface
	case "print", "println":
		return nil
	case "close":
		if ch, ok := args[0].(*ChanVal); ok && ch != nil {
			ch.Closed = true
		}
		return nil
	case "min", "max":
		r := args[0].(*Term)
		signed := true
		if c != nil {
			signed = isSigned(c.Args[0].Type())
		}
		for _, a := range args[1:] {
			t := a.(*Term)
			var lt *Term
			if signed {
				lt = SLt(t, r)
			} else {
				lt = ULt(t, r)
			}
			if name == "max" {
				lt = Not(lt)
				if signed {
					lt = SLt(r, t)
				} else {
					lt = ULt(r, t)
				}
			}
			r = Ite(lt, t, r)
		}
		return r
	case "ssa:wrapnilchk":
		if ptr, ok := args[0].(*Pointer); ok && ptr.IsNil() {
			p.gopanic("value method called using nil pointer", nil)
		}
		return args[0]
	}
	p.unsupported("builtin %s on %T", name, args[0])
	return nil
}
