package engine

func registerSQL(e *Engine) {}
