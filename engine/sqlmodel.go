package engine

import (
	"fmt"
	"go/types"
	"reflect"
	"sort"
	"strconv"
	"strings"

	"golang.org/x/tools/go/ssa"
)

// ---------------------------------------------------------------------------------------------
// M1: the SQL text STFS builds is parsed and evaluated over a bounded table with symbolic fields.
// Semantics implemented (SQLite, as probed against modernc.org/sqlite):
//   =, !=, <, <=, >, >=, and, or, not, in (...), ||, + - *, length() (characters), replace(),
//   like (% and _, ASCII case-insensitive, _ = one UTF-8 character), min() with bare columns taken
//   from the first minimising row, order by <expr> desc limit 1, limit n, double-quoted text that is
//   not a column name is a string literal, aliases usable in where, primary key (name, linkname).
// Anything outside this subset aborts the path as unsupported (INCONCLUSIVE), never silently.
// ---------------------------------------------------------------------------------------------

const modelsPkg = "github.com/pojntfx/stfs/internal/db/sqlite/models/metadata"

type sqlTable struct {
	rows   []*StructVal
	typ    *types.Struct
	named  types.Type
	col    map[string]int // column name -> field index
	writes int            // insert/update/delete statements executed (ghost, C15)
	reads  int
}

func (e *Engine) headerType() (types.Type, *types.Struct) {
	sp := e.SSA[modelsPkg]
	t := sp.Pkg.Scope().Lookup("Header").Type()
	return t, t.Underlying().(*types.Struct)
}

func boilTag(tag string) string {
	st := reflect.StructTag(tag)
	b := st.Get("boil")
	if i := strings.Index(b, ","); i >= 0 {
		b = b[:i]
	}
	return b
}

func (p *Path) newTable() *sqlTable {
	nt, st := p.E.headerType()
	t := &sqlTable{typ: st, named: nt, col: map[string]int{}}
	for i := 0; i < st.NumFields(); i++ {
		if b := boilTag(st.Tag(i)); b != "" && b != "-" {
			t.col[b] = i
		}
	}
	return t
}

func (p *Path) tableOf(exec Value) *sqlTable {
	iv, ok := exec.(*IfaceVal)
	var ptr *Pointer
	if ok {
		if iv.IsNil() {
			p.gopanic("nil pointer dereference (database handle is nil: index not opened)", nil)
		}
		ptr, _ = iv.V.(*Pointer)
	} else {
		ptr, _ = exec.(*Pointer)
	}
	if ptr.IsNil() {
		p.gopanic("nil pointer dereference (database handle is nil: index not opened)", nil)
	}
	key := fmt.Sprintf("table:%d", ptr.Obj.ID)
	if t, ok := p.ghost[key].(*sqlTable); ok {
		return t
	}
	t := p.newTable()
	p.ghost[key] = t
	return t
}

// ---------- SQL values ----------

type sqlVal struct {
	null bool
	i    *Term   // integer
	s    *StrVal // text
}

func (v sqlVal) isText() bool { return v.s != nil }

func (p *Path) sqlFromValue(v Value) sqlVal {
	switch x := v.(type) {
	case *IfaceVal:
		if x.IsNil() {
			return sqlVal{null: true}
		}
		return p.sqlFromValue(x.V)
	case *Term:
		if x.S.K == KBool {
			return sqlVal{i: Ite(x, BVC(64, 1), BVC(64, 0))}
		}
		if x.S.K == KBV {
			return sqlVal{i: Resize(x, 64, true)}
		}
	case *StrVal:
		return sqlVal{s: x}
	case *StructVal:
		// time.Time and friends: compared by identity of their integer payload
		if len(x.F) >= 2 {
			if t, ok := x.F[1].(*Term); ok {
				return sqlVal{i: t}
			}
		}
	}
	p.unsupported("sql: unsupported parameter value %T", v)
	return sqlVal{}
}

func (p *Path) truth(v sqlVal) *Term {
	if v.null {
		return FalseT
	}
	if v.isText() {
		p.unsupported("sql: text used as a condition")
	}
	return Ne(v.i, BVC(64, 0))
}

func boolVal(t *Term) sqlVal { return sqlVal{i: Ite(t, BVC(64, 1), BVC(64, 0))} }

// ---------- tokenizer / parser ----------

type sqlTok struct {
	k string // id, num, str, dq, op, param
	v string
}

func sqlLex(p *Path, s string) []sqlTok {
	var out []sqlTok
	i := 0
	for i < len(s) {
		c := s[i]
		switch {
		case c == ' ' || c == '\n' || c == '\t' || c == '\r' || c == ';':
			i++
		case c == '\'' || c == '"':
			j := i + 1
			var sb strings.Builder
			for j < len(s) {
				if s[j] == c {
					if j+1 < len(s) && s[j+1] == c {
						sb.WriteByte(c)
						j += 2
						continue
					}
					break
				}
				sb.WriteByte(s[j])
				j++
			}
			k := "str"
			if c == '"' {
				k = "dq"
			}
			out = append(out, sqlTok{k, sb.String()})
			i = j + 1
		case c >= '0' && c <= '9':
			j := i
			for j < len(s) && s[j] >= '0' && s[j] <= '9' {
				j++
			}
			out = append(out, sqlTok{"num", s[i:j]})
			i = j
		case c == '_' || (c >= 'a' && c <= 'z') || (c >= 'A' && c <= 'Z'):
			j := i
			for j < len(s) && (s[j] == '_' || s[j] == '.' || (s[j] >= 'a' && s[j] <= 'z') || (s[j] >= 'A' && s[j] <= 'Z') || (s[j] >= '0' && s[j] <= '9')) {
				j++
			}
			out = append(out, sqlTok{"id", strings.ToLower(s[i:j])})
			i = j
		case c == '?':
			out = append(out, sqlTok{"param", ""})
			i++
		case c == '$':
			j := i + 1
			for j < len(s) && s[j] >= '0' && s[j] <= '9' {
				j++
			}
			out = append(out, sqlTok{"param", s[i+1 : j]})
			i = j
		default:
			two := ""
			if i+1 < len(s) {
				two = s[i : i+2]
			}
			switch two {
			case "!=", "<>", "<=", ">=", "||":
				out = append(out, sqlTok{"op", two})
				i += 2
			default:
				if strings.ContainsRune("=<>+-*/(),", rune(c)) {
					out = append(out, sqlTok{"op", string(c)})
					i++
				} else {
					p.unsupported("sql: unexpected character %q in %q", c, s)
				}
			}
		}
	}
	return out
}

type sqlExpr struct {
	op   string // col, lit, param, bin, not, call, in, like
	name string
	val  sqlVal
	idx  int
	args []*sqlExpr
}

type sqlParser struct {
	p      *Path
	toks   []sqlTok
	pos    int
	nparam int
	src    string
}

func (sp *sqlParser) peek() sqlTok {
	if sp.pos < len(sp.toks) {
		return sp.toks[sp.pos]
	}
	return sqlTok{"eof", ""}
}
func (sp *sqlParser) next() sqlTok { t := sp.peek(); sp.pos++; return t }
func (sp *sqlParser) isKw(k string) bool {
	t := sp.peek()
	return t.k == "id" && t.v == k
}
func (sp *sqlParser) isOp(o string) bool {
	t := sp.peek()
	return t.k == "op" && t.v == o
}
func (sp *sqlParser) expectKw(k string) {
	if !sp.isKw(k) {
		sp.p.unsupported("sql: expected %q at token %d in %q", k, sp.pos, sp.src)
	}
	sp.pos++
}
func (sp *sqlParser) expectOp(o string) {
	if !sp.isOp(o) {
		sp.p.unsupported("sql: expected %q at token %d in %q", o, sp.pos, sp.src)
	}
	sp.pos++
}

func (sp *sqlParser) expr() *sqlExpr { return sp.orExpr() }

func (sp *sqlParser) orExpr() *sqlExpr {
	l := sp.andExpr()
	for sp.isKw("or") {
		sp.pos++
		r := sp.andExpr()
		l = &sqlExpr{op: "bin", name: "or", args: []*sqlExpr{l, r}}
	}
	return l
}

func (sp *sqlParser) andExpr() *sqlExpr {
	l := sp.notExpr()
	for sp.isKw("and") {
		sp.pos++
		r := sp.notExpr()
		l = &sqlExpr{op: "bin", name: "and", args: []*sqlExpr{l, r}}
	}
	return l
}

func (sp *sqlParser) notExpr() *sqlExpr {
	if sp.isKw("not") {
		sp.pos++
		return &sqlExpr{op: "not", args: []*sqlExpr{sp.notExpr()}}
	}
	return sp.cmpExpr()
}

func (sp *sqlParser) cmpExpr() *sqlExpr {
	l := sp.concatExpr()
	for {
		t := sp.peek()
		if t.k == "op" && (t.v == "=" || t.v == "!=" || t.v == "<>" || t.v == "<" || t.v == "<=" || t.v == ">" || t.v == ">=") {
			sp.pos++
			r := sp.concatExpr()
			op := t.v
			if op == "<>" {
				op = "!="
			}
			l = &sqlExpr{op: "bin", name: op, args: []*sqlExpr{l, r}}
			continue
		}
		neg := false
		save := sp.pos
		if sp.isKw("not") {
			sp.pos++
			neg = true
		}
		if sp.isKw("like") {
			sp.pos++
			r := sp.concatExpr()
			l = &sqlExpr{op: "like", args: []*sqlExpr{l, r}}
			if neg {
				l = &sqlExpr{op: "not", args: []*sqlExpr{l}}
			}
			continue
		}
		if sp.isKw("in") {
			sp.pos++
			sp.expectOp("(")
			e := &sqlExpr{op: "in", args: []*sqlExpr{l}}
			for !sp.isOp(")") {
				e.args = append(e.args, sp.expr())
				if sp.isOp(",") {
					sp.pos++
				}
			}
			sp.expectOp(")")
			l = e
			if neg {
				l = &sqlExpr{op: "not", args: []*sqlExpr{l}}
			}
			continue
		}
		sp.pos = save
		return l
	}
}

func (sp *sqlParser) concatExpr() *sqlExpr {
	l := sp.addExpr()
	for sp.isOp("||") {
		sp.pos++
		r := sp.addExpr()
		l = &sqlExpr{op: "bin", name: "||", args: []*sqlExpr{l, r}}
	}
	return l
}

func (sp *sqlParser) addExpr() *sqlExpr {
	l := sp.mulExpr()
	for sp.isOp("+") || sp.isOp("-") {
		o := sp.next().v
		r := sp.mulExpr()
		l = &sqlExpr{op: "bin", name: o, args: []*sqlExpr{l, r}}
	}
	return l
}

func (sp *sqlParser) mulExpr() *sqlExpr {
	l := sp.primary()
	for sp.isOp("*") {
		sp.pos++
		r := sp.primary()
		l = &sqlExpr{op: "bin", name: "*", args: []*sqlExpr{l, r}}
	}
	return l
}

func (sp *sqlParser) primary() *sqlExpr {
	t := sp.next()
	switch t.k {
	case "num":
		n, _ := strconv.ParseInt(t.v, 10, 64)
		return &sqlExpr{op: "lit", val: sqlVal{i: BVCi(64, n)}}
	case "str":
		return &sqlExpr{op: "lit", val: sqlVal{s: StrC(t.v)}}
	case "dq":
		return &sqlExpr{op: "dq", name: t.v}
	case "param":
		idx := sp.nparam
		if t.v != "" {
			n, _ := strconv.Atoi(t.v)
			idx = n - 1
		} else {
			sp.nparam++
		}
		return &sqlExpr{op: "param", idx: idx}
	case "op":
		if t.v == "(" {
			e := sp.expr()
			sp.expectOp(")")
			return e
		}
		if t.v == "*" {
			return &sqlExpr{op: "star"}
		}
	case "id":
		if sp.isOp("(") {
			sp.pos++
			e := &sqlExpr{op: "call", name: t.v}
			for !sp.isOp(")") {
				e.args = append(e.args, sp.expr())
				if sp.isOp(",") {
					sp.pos++
				}
			}
			sp.expectOp(")")
			return e
		}
		name := t.v
		if i := strings.LastIndex(name, "."); i >= 0 {
			name = name[i+1:]
		}
		return &sqlExpr{op: "col", name: name}
	}
	sp.p.unsupported("sql: unexpected token %v in %q", t, sp.src)
	return nil
}

type sqlItem struct {
	e     *sqlExpr
	alias string
	text  string
}

type sqlStmt struct {
	kind    string // select, update
	items   []sqlItem
	where   *sqlExpr
	orderBy *sqlExpr
	desc    bool
	more    []sqlOrderKey // further order-by terms (lexicographic)
	orRepl  bool          // update or replace: a row that collides with an updated row's primary key is deleted
	limit   *sqlExpr
	sets    []sqlItem // update: column name in alias, value expr in e
	agg     bool
}

type sqlOrderKey struct {
	e    *sqlExpr
	desc bool
}

func (p *Path) sqlParse(src string) *sqlStmt {
	sp := &sqlParser{p: p, toks: sqlLex(p, src), src: src}
	st := &sqlStmt{}
	switch {
	case sp.isKw("select"):
		sp.pos++
		st.kind = "select"
		for {
			start := sp.pos
			e := sp.expr()
			it := sqlItem{e: e}
			if sp.isKw("as") {
				sp.pos++
				it.alias = sp.next().v
			}
			if e.op == "col" && it.alias == "" {
				it.alias = e.name
			}
			_ = start
			if e.op == "call" && (e.name == "min" || e.name == "max") {
				st.agg = true
			}
			st.items = append(st.items, it)
			if sp.isOp(",") {
				sp.pos++
				continue
			}
			break
		}
		sp.expectKw("from")
		sp.next() // table
	case sp.isKw("update"):
		sp.pos++
		st.kind = "update"
		if sp.isKw("or") {
			sp.pos++
			sp.expectKw("replace")
			st.orRepl = true
		}
		sp.next() // table
		sp.expectKw("set")
		for {
			col := sp.next()
			sp.expectOp("=")
			e := sp.concatExpr()
			st.sets = append(st.sets, sqlItem{e: e, alias: col.v})
			if sp.isOp(",") {
				sp.pos++
				continue
			}
			break
		}
	default:
		p.unsupported("sql: unsupported statement %q", src)
	}
	if sp.isKw("where") {
		sp.pos++
		st.where = sp.expr()
	}
	if sp.isKw("order") {
		sp.pos++
		sp.expectKw("by")
		st.orderBy = sp.expr()
		if sp.isKw("desc") {
			sp.pos++
			st.desc = true
		} else if sp.isKw("asc") {
			sp.pos++
		}
		for sp.isOp(",") {
			sp.pos++
			k := sqlOrderKey{e: sp.expr()}
			if sp.isKw("desc") {
				sp.pos++
				k.desc = true
			} else if sp.isKw("asc") {
				sp.pos++
			}
			st.more = append(st.more, k)
		}
	}
	if sp.isKw("limit") {
		sp.pos++
		st.limit = sp.expr()
	}
	if sp.pos < len(sp.toks) {
		p.unsupported("sql: trailing tokens in %q", src)
	}
	return st
}

// ---------- evaluation ----------

type sqlEnv struct {
	p      *Path
	t      *sqlTable
	row    *StructVal
	params []sqlVal
	alias  map[string]*sqlExpr
	depth  int
}

func (p *Path) colVal(t *sqlTable, row *StructVal, idx int) sqlVal {
	return p.sqlFromValue(row.F[idx])
}

func (ev *sqlEnv) eval(e *sqlExpr) sqlVal {
	p := ev.p
	switch e.op {
	case "lit":
		return e.val
	case "param":
		if e.idx >= len(ev.params) {
			p.unsupported("sql: missing parameter %d", e.idx+1)
		}
		return ev.params[e.idx]
	case "dq":
		if idx, ok := ev.t.col[e.name]; ok {
			return p.colVal(ev.t, ev.row, idx)
		}
		return sqlVal{s: StrC(e.name)} // SQLite: unknown double-quoted identifier is a string literal
	case "col":
		if a, ok := ev.alias[e.name]; ok && ev.depth < 4 {
			if _, isCol := ev.t.col[e.name]; !isCol {
				ev.depth++
				v := ev.eval(a)
				ev.depth--
				return v
			}
		}
		idx, ok := ev.t.col[e.name]
		if !ok {
			p.unsupported("sql: unknown column %q", e.name)
		}
		return p.colVal(ev.t, ev.row, idx)
	case "not":
		return boolVal(Not(p.truth(ev.eval(e.args[0]))))
	case "like":
		l, r := ev.eval(e.args[0]), ev.eval(e.args[1])
		if !l.isText() || !r.isText() {
			p.unsupported("sql: like on non-text")
		}
		return boolVal(sqlLike(l.s, r.s))
	case "in":
		l := ev.eval(e.args[0])
		var cs []*Term
		for _, a := range e.args[1:] {
			cs = append(cs, ev.cmpEq(l, ev.eval(a)))
		}
		return boolVal(Or(cs...))
	case "call":
		switch e.name {
		case "length":
			v := ev.eval(e.args[0])
			if !v.isText() {
				p.unsupported("sql: length of non-text")
			}
			return sqlVal{i: sqlLength(v.s)}
		case "instr":
			h, n := ev.eval(e.args[0]), ev.eval(e.args[1])
			if !h.isText() || !n.isText() {
				p.unsupported("sql: instr on non-text")
			}
			return sqlVal{i: sqlInstr(h.s, n.s)}
		case "substr":
			sv, st := ev.eval(e.args[0]), ev.eval(e.args[1])
			if !sv.isText() || st.isText() || len(e.args) != 2 {
				p.unsupported("sql: substr form")
			}
			return sqlVal{s: p.sqlSubstr(sv.s, st.i)}
		case "replace":
			s, from, to := ev.eval(e.args[0]), ev.eval(e.args[1]), ev.eval(e.args[2])
			if !s.isText() || !from.isText() || !to.isText() {
				p.unsupported("sql: replace on non-text")
			}
			return sqlVal{s: p.sqlReplace(s.s, from.s, to.s)}
		}
		p.unsupported("sql: function %s", e.name)
	case "bin":
		switch e.name {
		case "and":
			return boolVal(And(p.truth(ev.eval(e.args[0])), p.truth(ev.eval(e.args[1]))))
		case "or":
			return boolVal(Or(p.truth(ev.eval(e.args[0])), p.truth(ev.eval(e.args[1]))))
		}
		l, r := ev.eval(e.args[0]), ev.eval(e.args[1])
		switch e.name {
		case "=":
			return boolVal(ev.cmpEq(l, r))
		case "!=":
			return boolVal(Not(ev.cmpEq(l, r)))
		case "||":
			if !l.isText() || !r.isText() {
				p.unsupported("sql: || on non-text")
			}
			nb := append(append([]*Term{}, l.s.B...), r.s.B...)
			return sqlVal{s: StrFromTerms(nb)}
		}
		if l.isText() || r.isText() {
			p.unsupported("sql: arithmetic/ordering on text")
		}
		switch e.name {
		case "+":
			return sqlVal{i: Add(l.i, r.i)}
		case "-":
			return sqlVal{i: Sub(l.i, r.i)}
		case "*":
			return sqlVal{i: Mul(l.i, r.i)}
		case "<":
			return boolVal(SLt(l.i, r.i))
		case "<=":
			return boolVal(SLe(l.i, r.i))
		case ">":
			return boolVal(SLt(r.i, l.i))
		case ">=":
			return boolVal(SLe(r.i, l.i))
		}
	}
	p.unsupported("sql: expression %s %s", e.op, e.name)
	return sqlVal{}
}

func (ev *sqlEnv) cmpEq(l, r sqlVal) *Term {
	if l.null || r.null {
		return FalseT
	}
	if l.isText() != r.isText() {
		return FalseT // SQLite: text never equals integer
	}
	if l.isText() {
		return StrEq(l.s, r.s)
	}
	return Eq(l.i, r.i)
}

// sqlLength: number of UTF-8 characters = bytes that are not continuation bytes.
func sqlLength(s *StrVal) *Term {
	n := BVC(64, 0)
	for _, b := range s.B {
		isCont := Eq(BAnd(b, BVC(8, 0xC0)), BVC(8, 0x80))
		n = Add(n, Ite(isCont, BVC(64, 0), BVC(64, 1)))
	}
	return n
}

// sqlInstr: 1-based character index of the first occurrence of needle (binary comparison), 0 if none.
func sqlInstr(h, n *StrVal) *Term {
	if len(n.B) == 0 {
		return BVC(64, 1)
	}
	res := BVC(64, 0)
	for i := len(h.B) - len(n.B); i >= 0; i-- {
		m := StrEq(StrFromTerms(h.B[i:i+len(n.B)]), n)
		if m.IsFalse() {
			continue
		}
		idx := Add(sqlLength(StrFromTerms(h.B[:i])), BVC(64, 1))
		res = Ite(m, idx, res)
	}
	return res
}

// sqlSubstr: substr(s, start) with a 1-based character index; forks on the start value and on
// whether bytes are UTF-8 continuation bytes (only where the alphabet allows them).
func (p *Path) sqlSubstr(s *StrVal, start *Term) *StrVal {
	k := int64(p.Concretize(start, "sql.substr.start"))
	if k <= 1 {
		return s
	}
	chars := int64(0)
	for i, b := range s.B {
		isCont := Eq(BAnd(b, BVC(8, 0xC0)), BVC(8, 0x80))
		if !p.Branch(isCont) {
			chars++
			if chars == k {
				return StrFromTerms(s.B[i:])
			}
		}
	}
	return StrC("")
}

// sqlReplace: left-to-right non-overlapping replacement; forks on each possible match position.
func (p *Path) sqlReplace(s, from, to *StrVal) *StrVal {
	if len(from.B) == 0 || len(from.B) > len(s.B) {
		return s
	}
	var out []*Term
	i := 0
	for i < len(s.B) {
		if i+len(from.B) <= len(s.B) {
			m := StrEq(StrFromTerms(s.B[i:i+len(from.B)]), from)
			if p.Branch(m) {
				out = append(out, to.B...)
				i += len(from.B)
				continue
			}
		}
		out = append(out, s.B[i])
		i++
	}
	return StrFromTerms(out)
}

func lowerASCII(b *Term) *Term {
	isUp := And(ULe(BVC(8, 'A'), b), ULe(b, BVC(8, 'Z')))
	return Ite(isUp, BOr(b, BVC(8, 0x20)), b)
}

// sqlLike builds the match condition as one term (no forking), memoised over (i, j).
func sqlLike(s, pat *StrVal) *Term {
	n, m := len(s.B), len(pat.B)
	memo := make([][]*Term, n+2)
	for i := range memo {
		memo[i] = make([]*Term, m+2)
	}
	var match func(i, j int) *Term
	match = func(i, j int) *Term {
		if i > n {
			return FalseT
		}
		if memo[i][j] != nil {
			return memo[i][j]
		}
		var r *Term
		if j == m {
			r = BoolC(i == n)
		} else {
			pc := pat.B[j]
			isPct := Eq(pc, BVC(8, '%'))
			isUnd := Eq(pc, BVC(8, '_'))
			// '%': any run of characters (byte positions are fine since the rest must still match)
			var alts []*Term
			if !isPct.IsFalse() {
				for k := i; k <= n; k++ {
					alts = append(alts, match(k, j+1))
				}
			}
			pct := Or(alts...)
			var und, lit *Term = FalseT, FalseT
			if i < n {
				if !isUnd.IsFalse() {
					// one UTF-8 character: skip the lead byte and its continuation bytes
					b := s.B[i]
					one := match(i+1, j+1)
					two := match(i+2, j+1)
					three := match(i+3, j+1)
					four := match(i+4, j+1)
					und = Ite(ULt(b, BVC(8, 0xC0)), one, Ite(ULt(b, BVC(8, 0xE0)), two, Ite(ULt(b, BVC(8, 0xF0)), three, four)))
				}
				lit = And(Eq(lowerASCII(s.B[i]), lowerASCII(pc)), match(i+1, j+1))
			}
			r = Ite(isPct, pct, Ite(isUnd, und, lit))
		}
		memo[i][j] = r
		return r
	}
	return match(0, 0)
}

// ---------- statement execution ----------

func (p *Path) sqlFault(what string) Value {
	switch what {
	case "insert", "update", "exec", "deleteall":
		p.recordPseudo("IndexStore.rows", true)
	case "open":
	default:
		p.recordPseudo("IndexStore.rows", false)
	}
	mp := p.E.SSA[ModelPkg]
	if mp == nil {
		return nil
	}
	fp := mp.Func("FaultPoint")
	if fp == nil {
		return nil
	}
	r := p.CallFn(fp, []Value{StrC("sql." + what)}, nil).(*Term)
	if p.Branch(r) {
		return p.errVal("injected database fault (" + what + ")")
	}
	return nil
}

func (p *Path) errNoRows() Value {
	g := p.E.findGlobal("database/sql", "ErrNoRows")
	return p.global(g).Val
}

func (p *Path) selectRows(t *sqlTable, st *sqlStmt, params []sqlVal, max int) []*StructVal {
	alias := map[string]*sqlExpr{}
	for _, it := range st.items {
		if it.alias != "" && it.e.op != "col" {
			alias[it.alias] = it.e
		}
	}
	var out []*StructVal
	for _, row := range p.scanOrder(t, st) {
		if max >= 0 && len(out) >= max {
			break
		}
		ev := &sqlEnv{p: p, t: t, row: row, params: params, alias: alias}
		c := TrueT
		if st.where != nil {
			c = p.truth(ev.eval(st.where))
		}
		if p.Branch(c) {
			out = append(out, row)
		}
	}
	return out
}

// scanOrder is the order in which SQLite visits the rows: rowid (insertion) order for a table scan, but the order of
// the primary-key index (name, linkname) when the statement pins the leading key column with `name = ?` (probed against
// modernc SQLite: with a link row inserted before its target row, `where name = ? limit 1` still returns the target row,
// whose linkname "" sorts first). Lengths of strings are concrete, so "empty before non-empty" needs no solver call;
// non-empty link names are ordered bytewise when they are concrete and left in rowid order otherwise.
func (p *Path) scanOrder(t *sqlTable, st *sqlStmt) []*StructVal {
	if st.where == nil || !sqlPinsColumn(st.where, "name") {
		return t.rows
	}
	li, ok := t.col["linkname"]
	if !ok {
		return t.rows
	}
	rows := append([]*StructVal{}, t.rows...)
	key := func(r *StructVal) (string, int) {
		sv, ok := r.F[li].(*StrVal)
		if !ok {
			return "", 2
		}
		if sv.Len() == 0 {
			return "", 0
		}
		if c, ok := sv.Concrete(); ok {
			return c, 1
		}
		return "", 2
	}
	sort.SliceStable(rows, func(i, j int) bool {
		ci, ki := key(rows[i])
		cj, kj := key(rows[j])
		if ki == 0 || kj == 0 {
			return ki == 0 && kj != 0
		}
		if ki == 1 && kj == 1 {
			return ci < cj
		}
		return false
	})
	return rows
}

// sqlPinsColumn: the expression is a conjunction one of whose conjuncts is `<col> = <parameter or literal>`.
func sqlPinsColumn(e *sqlExpr, col string) bool {
	if e == nil {
		return false
	}
	if e.op == "bin" && e.name == "and" {
		return sqlPinsColumn(e.args[0], col) || sqlPinsColumn(e.args[1], col)
	}
	if e.op == "bin" && e.name == "=" {
		l, r := e.args[0], e.args[1]
		isCol := func(x *sqlExpr) bool { return (x.op == "col" || x.op == "dq") && x.name == col }
		isVal := func(x *sqlExpr) bool { return x.op == "param" || x.op == "lit" }
		return (isCol(l) && isVal(r)) || (isCol(r) && isVal(l))
	}
	return false
}

// bindRow copies selected columns of a row into a struct pointer (by boil tag, else by field name).
func (p *Path) bindRow(t *sqlTable, st *sqlStmt, row *StructVal, params []sqlVal, target *Pointer, targetType types.Type, alias map[string]*sqlExpr) {
	ts := targetType.Underlying().(*types.Struct)
	cur := target.load().(*StructVal)
	find := func(col string) int {
		for i := 0; i < ts.NumFields(); i++ {
			if boilTag(ts.Tag(i)) == col {
				return i
			}
		}
		for i := 0; i < ts.NumFields(); i++ {
			if strings.EqualFold(ts.Field(i).Name(), col) {
				return i
			}
		}
		return -1
	}
	ev := &sqlEnv{p: p, t: t, row: row, params: params, alias: alias}
	for _, it := range st.items {
		if it.e.op == "star" {
			for c, idx := range t.col {
				if fi := find(c); fi >= 0 {
					cur.F[fi] = copyVal(row.F[idx])
				}
			}
			continue
		}
		name := it.alias
		if name == "" {
			continue // unnamed expression column: no matching field, ignored by the binder
		}
		fi := find(name)
		if fi < 0 {
			continue
		}
		if it.e.op == "col" || it.e.op == "dq" {
			if idx, ok := t.col[it.e.name]; ok {
				cur.F[fi] = copyVal(row.F[idx])
				continue
			}
		}
		v := ev.eval(it.e)
		if v.isText() {
			cur.F[fi] = v.s
		} else {
			ft := ts.Field(fi).Type()
			if b, ok := ft.Underlying().(*types.Basic); ok {
				if w, _, isInt := basicWidth(b); isInt {
					cur.F[fi] = Resize(v.i, w, true)
				}
			}
		}
	}
	target.store(cur)
}

func registerSQL(e *Engine) {
	I := e.Intrinsics
	const qmPkg = "github.com/volatiletech/sqlboiler/v4/queries/qm."
	const qPkg = "github.com/volatiletech/sqlboiler/v4/queries."
	M := modelsPkg

	I["(*github.com/pojntfx/stfs/internal/persisters.SQLite).Open"] = func(p *Path, fn *ssa.Function, a []Value) Value {
		if er := p.sqlFault("open"); er != nil {
			return er
		}
		ptr := a[0].(*Pointer)
		st := ptr.Obj.Typ.Underlying().(*types.Struct)
		if len(ptr.Path) != 0 {
			p.unsupported("SQLite.Open on embedded struct")
		}
		for i := 0; i < st.NumFields(); i++ {
			if st.Field(i).Name() == "DB" {
				cur := ptr.Sub(i).load().(*Pointer)
				if cur.IsNil() {
					dbT := st.Field(i).Type().(*types.Pointer).Elem()
					p.nextObj++
					o := &Object{ID: p.nextObj, Val: &StructVal{}, Typ: dbT, Tag: "sql.DB"}
					ptr.Sub(i).store(&Pointer{Obj: o})
				}
			}
		}
		return NilIface
	}
	I["(*github.com/pojntfx/stfs/internal/persisters.SQLite).Close"] = func(p *Path, fn *ssa.Function, a []Value) Value {
		return NilIface
	}
	I[qmPkg+"Where"] = func(p *Path, fn *ssa.Function, a []Value) Value {
		return &IfaceVal{T: opaqueType("qm.where"), V: &StructVal{F: []Value{a[0], a[1]}}}
	}
	// boil.Columns{Kind, Cols}: kinds as in sqlboiler (none 0, infer 1, whitelist 2, greylist 3, blacklist 4)
	boilCols := func(kind int) Intrinsic {
		return func(p *Path, fn *ssa.Function, a []Value) Value {
			res := p.E.zero(fn.Signature.Results().At(0).Type()).(*StructVal)
			res.F[0] = BVC(64, uint64(kind))
			if len(a) > 0 {
				res.F[1] = a[0]
			}
			return res
		}
	}
	I["github.com/volatiletech/sqlboiler/v4/boil.None"] = boilCols(0)
	I["github.com/volatiletech/sqlboiler/v4/boil.Infer"] = boilCols(1)
	I["github.com/volatiletech/sqlboiler/v4/boil.Whitelist"] = boilCols(2)
	I["github.com/volatiletech/sqlboiler/v4/boil.Greylist"] = boilCols(3)
	I["github.com/volatiletech/sqlboiler/v4/boil.Blacklist"] = boilCols(4)
	// models.Headers(mods...) -> headerQuery carrying the mods
	I[M+".Headers"] = func(p *Path, fn *ssa.Function, a []Value) Value {
		res := p.E.zero(fn.Signature.Results().At(0).Type()).(*StructVal)
		p.nextObj++
		o := &Object{ID: p.nextObj, Val: &StructVal{}, Tag: "query"}
		res.F[0] = &Pointer{Obj: o}
		p.ghost[fmt.Sprintf("mods:%d", o.ID)] = a[0]
		return res
	}
	modsOf := func(p *Path, q Value) (string, []sqlVal) {
		qs := q.(*StructVal)
		o := qs.F[0].(*Pointer).Obj
		mods, _ := p.ghost[fmt.Sprintf("mods:%d", o.ID)].(*SliceVal)
		var clauses []string
		var params []sqlVal
		if mods != nil && !mods.IsNil() {
			arr := mods.Arr()
			for i := 0; i < mods.Len; i++ {
				iv := arr.Get(mods.Off + i).(*IfaceVal)
				sv := iv.V.(*StructVal)
				clauses = append(clauses, "("+concStr(p, sv.F[0], "where clause")+")")
				if args, ok := sv.F[1].(*SliceVal); ok && !args.IsNil() {
					aa := args.Arr()
					for j := 0; j < args.Len; j++ {
						params = append(params, p.sqlFromValue(aa.Get(args.Off+j)))
					}
				}
			}
		}
		sql := "select * from headers"
		if len(clauses) > 0 {
			sql += " where " + strings.Join(clauses, " and ")
		}
		return sql, params
	}
	newHeaderPtr := func(p *Path, t *sqlTable, row *StructVal) *Pointer {
		o := p.newObj(t.named, "row")
		o.Val = copyVal(row)
		return &Pointer{Obj: o}
	}
	I["("+M+".headerQuery).One"] = func(p *Path, fn *ssa.Function, a []Value) Value {
		if er := p.sqlFault("one"); er != nil {
			return TupleVal{NilPtr, er}
		}
		t := p.tableOf(a[2])
		t.reads++
		sql, params := modsOf(p, a[0])
		rows := p.selectRows(t, p.sqlParse(sql), params, 1)
		if len(rows) == 0 {
			return TupleVal{NilPtr, p.errNoRows()}
		}
		return TupleVal{newHeaderPtr(p, t, rows[0]), NilIface}
	}
	I["("+M+".headerQuery).All"] = func(p *Path, fn *ssa.Function, a []Value) Value {
		if er := p.sqlFault("all"); er != nil {
			return TupleVal{&SliceVal{}, er}
		}
		t := p.tableOf(a[2])
		t.reads++
		sql, params := modsOf(p, a[0])
		rows := p.selectRows(t, p.sqlParse(sql), params, -1)
		et := types.NewPointer(t.named)
		o := p.newArrayObj(et, len(rows))
		for i, r := range rows {
			o.Val.(*ArrayVal).E[i] = newHeaderPtr(p, t, r)
		}
		return TupleVal{&SliceVal{Obj: o, Len: len(rows), Cap: len(rows)}, NilIface}
	}
	I["("+M+".headerQuery).Exists"] = func(p *Path, fn *ssa.Function, a []Value) Value {
		if er := p.sqlFault("exists"); er != nil {
			return TupleVal{FalseT, er}
		}
		t := p.tableOf(a[2])
		t.reads++
		sql, params := modsOf(p, a[0])
		rows := p.selectRows(t, p.sqlParse(sql), params, 1)
		return TupleVal{BoolC(len(rows) > 0), NilIface}
	}
	I["("+M+".headerQuery).DeleteAll"] = func(p *Path, fn *ssa.Function, a []Value) Value {
		if er := p.sqlFault("deleteall"); er != nil {
			return TupleVal{BVC(64, 0), er}
		}
		t := p.tableOf(a[2])
		t.writes++
		sql, params := modsOf(p, a[0])
		st := p.sqlParse(sql)
		del := p.selectRows(t, st, params, -1)
		var keep []*StructVal
		for _, r := range t.rows {
			gone := false
			for _, d := range del {
				if d == r {
					gone = true
				}
			}
			if !gone {
				keep = append(keep, r)
			}
		}
		t.rows = keep
		return TupleVal{BVCi(64, int64(len(del))), NilIface}
	}
	pkEq := func(p *Path, t *sqlTable, r *StructVal, h *StructVal) *Term {
		ni, li := t.col["name"], t.col["linkname"]
		return And(StrEq(r.F[ni].(*StrVal), h.F[ni].(*StrVal)), StrEq(r.F[li].(*StrVal), h.F[li].(*StrVal)))
	}
	// sqlboiler's generated primary-key helpers: HeaderExists(ctx, exec, name, linkname), FindHeader(ctx, exec, name, linkname, cols...)
	keyEq := func(t *sqlTable, r *StructVal, name, linkname Value) *Term {
		ni, li := t.col["name"], t.col["linkname"]
		return And(StrEq(r.F[ni].(*StrVal), name.(*StrVal)), StrEq(r.F[li].(*StrVal), linkname.(*StrVal)))
	}
	I[M+".HeaderExists"] = func(p *Path, fn *ssa.Function, a []Value) Value {
		if er := p.sqlFault("exists"); er != nil {
			return TupleVal{FalseT, er}
		}
		t := p.tableOf(a[1])
		t.reads++
		for _, r := range t.rows {
			if p.Branch(keyEq(t, r, a[2], a[3])) {
				return TupleVal{TrueT, NilIface}
			}
		}
		return TupleVal{FalseT, NilIface}
	}
	I[M+".FindHeader"] = func(p *Path, fn *ssa.Function, a []Value) Value {
		if er := p.sqlFault("one"); er != nil {
			return TupleVal{NilPtr, er}
		}
		t := p.tableOf(a[1])
		t.reads++
		for _, r := range t.rows {
			if p.Branch(keyEq(t, r, a[2], a[3])) {
				return TupleVal{newHeaderPtr(p, t, r), NilIface}
			}
		}
		return TupleVal{NilPtr, p.errNoRows()}
	}
	I["(*"+M+".Header).Insert"] = func(p *Path, fn *ssa.Function, a []Value) Value {
		if er := p.sqlFault("insert"); er != nil {
			return er
		}
		t := p.tableOf(a[2])
		t.writes++
		h := a[0].(*Pointer).load().(*StructVal)
		for _, r := range t.rows {
			if p.Branch(pkEq(p, t, r, h)) {
				return p.errVal("models: unable to insert into headers: constraint failed: UNIQUE constraint failed: headers.name, headers.linkname (1555)")
			}
		}
		t.rows = append(t.rows, copyVal(h).(*StructVal))
		return NilIface
	}
	I["(*"+M+".Header).Update"] = func(p *Path, fn *ssa.Function, a []Value) Value {
		if er := p.sqlFault("update"); er != nil {
			return TupleVal{BVC(64, 0), er}
		}
		t := p.tableOf(a[2])
		t.writes++
		h := a[0].(*Pointer).load().(*StructVal)
		// which columns the statement sets (sqlboiler: infer = all non-key columns, whitelist = the listed ones,
		// blacklist = all but the listed ones, greylist = inferred plus listed)
		write := map[int]bool{}
		for _, ci := range t.col {
			write[ci] = true
		}
		if cv, ok := a[len(a)-1].(*StructVal); ok && len(cv.F) == 2 {
			kind := int(concInt(p, cv.F[0], "boil.Columns kind"))
			var listed []int
			if sl, ok := cv.F[1].(*SliceVal); ok && !sl.IsNil() {
				arr := sl.Arr()
				for j := 0; j < sl.Len; j++ {
					name := concStr(p, arr.Get(sl.Off+j), "boil column name")
					ci, ok := t.col[name]
					if !ok {
						return TupleVal{BVC(64, 0), p.errVal("models: unable to update headers row: no such column: " + name)}
					}
					listed = append(listed, ci)
				}
			}
			switch kind {
			case 0:
				p.unsupported("sql: Update with boil.None()")
			case 2:
				write = map[int]bool{}
				for _, ci := range listed {
					write[ci] = true
				}
			case 4:
				for _, ci := range listed {
					delete(write, ci)
				}
			}
		}
		for i, r := range t.rows {
			if p.Branch(pkEq(p, t, r, h)) {
				nr := copyVal(r).(*StructVal)
				hv := copyVal(h).(*StructVal)
				for ci := range write {
					nr.F[ci] = hv.F[ci]
				}
				t.rows[i] = nr
				return TupleVal{BVC(64, 1), NilIface}
			}
		}
		return TupleVal{BVC(64, 0), NilIface}
	}
	I[qPkg+"Raw"] = func(p *Path, fn *ssa.Function, a []Value) Value {
		p.nextObj++
		o := &Object{ID: p.nextObj, Val: &StructVal{}, Tag: "rawquery"}
		p.ghost[fmt.Sprintf("raw:%d", o.ID)] = TupleVal{a[0], a[1]}
		return &Pointer{Obj: o}
	}
	rawOf := func(p *Path, q Value) (string, []sqlVal) {
		o := q.(*Pointer).Obj
		tv, ok := p.ghost[fmt.Sprintf("raw:%d", o.ID)].(TupleVal)
		if !ok {
			p.unsupported("sql: query object not created by queries.Raw")
		}
		sql := concStr(p, tv[0], "raw sql")
		var params []sqlVal
		if args, ok := tv[1].(*SliceVal); ok && !args.IsNil() {
			aa := args.Arr()
			for j := 0; j < args.Len; j++ {
				params = append(params, p.sqlFromValue(aa.Get(args.Off+j)))
			}
		}
		return sql, params
	}
	I["(*"+qPkg[:len(qPkg)-1]+".Query).Bind"] = func(p *Path, fn *ssa.Function, a []Value) Value {
		if er := p.sqlFault("bind"); er != nil {
			return er
		}
		t := p.tableOf(a[2])
		t.reads++
		sql, params := rawOf(p, a[0])
		st := p.sqlParse(sql)
		if st.kind != "select" {
			p.unsupported("sql: Bind of non-select")
		}
		target := a[3].(*IfaceVal)
		tptr := target.V.(*Pointer)
		tt := target.T.(*types.Pointer).Elem()
		alias := map[string]*sqlExpr{}
		for _, it := range st.items {
			if it.alias != "" && it.e.op != "col" {
				alias[it.alias] = it.e
			}
		}
		if st.agg {
			return p.sqlAggregate(t, st, params, tptr, tt)
		}
		var rows []*StructVal
		if st.orderBy != nil {
			if st.limit == nil {
				p.unsupported("sql: order by without limit")
			}
			rows = p.sqlTop(t, st, params, alias)
		} else {
			max := -1
			if st.limit != nil {
				ev := &sqlEnv{p: p, t: t, params: params}
				lv := ev.eval(st.limit)
				max = int(int64(p.Concretize(lv.i, "sql.limit")))
			}
			rows = p.selectRows(t, st, params, max)
		}
		if sl, ok := tt.Underlying().(*types.Slice); ok {
			// slice of pointers to structs
			et := sl.Elem().(*types.Pointer).Elem()
			cur := tptr.load().(*SliceVal)
			var args []Value
			for _, r := range rows {
				o := p.newObj(et, "boundrow")
				ptr := &Pointer{Obj: o}
				p.bindRow(t, st, r, params, ptr, et, alias)
				args = append(args, ptr)
			}
			o := p.newArrayObj(sl.Elem(), len(args)+cur.lenOrZero())
			arr := o.Val.(*ArrayVal)
			n := 0
			if !cur.IsNil() {
				for i := 0; i < cur.Len; i++ {
					arr.E[n] = cur.Arr().Get(cur.Off + i)
					n++
				}
			}
			for _, x := range args {
				arr.E[n] = x
				n++
			}
			tptr.store(&SliceVal{Obj: o, Len: n, Cap: n})
			return NilIface
		}
		if len(rows) == 0 {
			return p.errNoRows()
		}
		p.bindRow(t, st, rows[0], params, tptr, tt, alias)
		return NilIface
	}
	I["(*"+qPkg[:len(qPkg)-1]+".Query).ExecContext"] = func(p *Path, fn *ssa.Function, a []Value) Value {
		if er := p.sqlFault("exec"); er != nil {
			return TupleVal{NilIface, er}
		}
		t := p.tableOf(a[2])
		t.writes++
		sql, params := rawOf(p, a[0])
		st := p.sqlParse(sql)
		if st.kind != "update" {
			p.unsupported("sql: ExecContext of non-update")
		}
		hit := p.selectRows(t, st, params, -1)
		ni, li := t.col["name"], t.col["linkname"]
		replaced := map[*StructVal]bool{}
		for _, r := range hit {
			if replaced[r] {
				continue
			}
			nr := copyVal(r).(*StructVal)
			ev := &sqlEnv{p: p, t: t, row: r, params: params}
			for _, s := range st.sets {
				idx, ok := t.col[s.alias]
				if !ok {
					p.unsupported("sql: update of unknown column %q", s.alias)
				}
				v := ev.eval(s.e)
				if v.isText() {
					nr.F[idx] = v.s
				} else {
					nr.F[idx] = v.i
				}
			}
			// primary key (name, linkname) must stay unique
			for _, o := range t.rows {
				if o == r {
					continue
				}
				dup := And(StrEq(o.F[ni].(*StrVal), nr.F[ni].(*StrVal)), StrEq(o.F[li].(*StrVal), nr.F[li].(*StrVal)))
				if p.Branch(dup) {
					if st.orRepl {
						replaced[o] = true
						continue
					}
					return TupleVal{NilIface, p.errVal("constraint failed: UNIQUE constraint failed: headers.name, headers.linkname (1555)")}
				}
			}
			var kept []*StructVal
			for i := range t.rows {
				if replaced[t.rows[i]] {
					continue
				}
				if t.rows[i] == r {
					t.rows[i] = nr
				}
				kept = append(kept, t.rows[i])
			}
			t.rows = kept
		}
		return TupleVal{p.sqlResult(int64(len(hit))), NilIface}
	}

	// harness access to the table
	V := ModelPkg + "."
	I[V+"TableInsert"] = func(p *Path, fn *ssa.Function, a []Value) Value {
		t := p.tableOf(a[0])
		h := a[1].(*Pointer).load().(*StructVal)
		t.rows = append(t.rows, copyVal(h).(*StructVal))
		return nil
	}
	I[V+"TableLen"] = func(p *Path, fn *ssa.Function, a []Value) Value {
		return BVCi(64, int64(len(p.tableOf(a[0]).rows)))
	}
	I[V+"TableRow"] = func(p *Path, fn *ssa.Function, a []Value) Value {
		t := p.tableOf(a[0])
		i := int(concInt(p, a[1], "TableRow index"))
		return newHeaderPtr(p, t, t.rows[i])
	}
	I[V+"TableWrites"] = func(p *Path, fn *ssa.Function, a []Value) Value {
		return BVCi(64, int64(p.tableOf(a[0]).writes))
	}
	I[V+"TableClone"] = func(p *Path, fn *ssa.Function, a []Value) Value {
		src, dst := p.tableOf(a[0]), p.tableOf(a[1])
		dst.rows = nil
		for _, r := range src.rows {
			dst.rows = append(dst.rows, copyVal(r).(*StructVal))
		}
		return nil
	}
}

func (p *Path) sqlResult(n int64) Value {
	mp := p.E.SSA[ModelPkg]
	tn := mp.Pkg.Scope().Lookup("SQLResult")
	if tn == nil {
		p.unsupported("verifmodel.SQLResult missing")
	}
	sv := p.E.zero(tn.Type()).(*StructVal)
	sv.F[0] = BVCi(64, n)
	return &IfaceVal{T: tn.Type(), V: sv}
}

// sqlAggregate handles select min(expr) [as a], <bare column>... [where ...]
func (p *Path) sqlAggregate(t *sqlTable, st *sqlStmt, params []sqlVal, tptr *Pointer, tt types.Type) Value {
	var minExpr *sqlExpr
	for _, it := range st.items {
		if it.e.op == "call" && it.e.name == "min" {
			minExpr = it.e.args[0]
		}
	}
	rows := p.selectRows(t, st, params, -1)
	if len(rows) == 0 {
		// min() over no rows is NULL; scanning NULL into a non-nullable field fails
		first := st.items[0]
		name := first.alias
		ts := tt.Underlying().(*types.Struct)
		kind := "int64"
		// the binder reports the first column it cannot convert
		for i := 0; i < ts.NumFields(); i++ {
			if boilTag(ts.Tag(i)) == name || strings.EqualFold(ts.Field(i).Name(), name) {
				if b, ok := ts.Field(i).Type().Underlying().(*types.Basic); ok && b.Kind() == types.String {
					kind = "string"
				}
			}
		}
		mapped := false
		for i := 0; i < ts.NumFields(); i++ {
			if boilTag(ts.Tag(i)) == name || strings.EqualFold(ts.Field(i).Name(), name) {
				mapped = true
			}
		}
		if !mapped {
			// the aggregate itself is not bound; the bare column is NULL too
			kind = "string"
			name = "name"
		}
		return p.errVal(fmt.Sprintf("failed to bind pointers to obj: sql: Scan error on column index 0, name %q: converting NULL to %s is unsupported", name, kind))
	}
	// choose the first minimising row (rowid order)
	vals := make([]*Term, len(rows))
	for i, r := range rows {
		ev := &sqlEnv{p: p, t: t, row: r, params: params}
		vals[i] = ev.eval(minExpr).i
	}
	chosen := -1
	for i := range rows {
		c := TrueT
		for j := range rows {
			if j < i {
				c = And(c, SLt(vals[i], vals[j]))
			} else if j > i {
				c = And(c, SLe(vals[i], vals[j]))
			}
		}
		if p.Branch(c) {
			chosen = i
			break
		}
	}
	if chosen < 0 {
		panic(&abortPath{Kind: "infeasible", Msg: "sql: no minimising row"})
	}
	// bind: aggregate alias -> min value, bare columns -> chosen row
	ts := tt.Underlying().(*types.Struct)
	cur := tptr.load().(*StructVal)
	for _, it := range st.items {
		fi := -1
		for i := 0; i < ts.NumFields(); i++ {
			if boilTag(ts.Tag(i)) == it.alias || strings.EqualFold(ts.Field(i).Name(), it.alias) {
				fi = i
				break
			}
		}
		if fi < 0 {
			continue
		}
		if it.e.op == "call" {
			cur.F[fi] = vals[chosen]
		} else if idx, ok := t.col[it.e.name]; ok {
			cur.F[fi] = copyVal(rows[chosen].F[idx])
		}
	}
	tptr.store(cur)
	return NilIface
}

// sqlTop handles "order by <expr> [desc] {, <expr> [desc]} limit 1": the first row (in scan order) whose key tuple
// is minimal in the lexicographic order of the terms.
func (p *Path) sqlTop(t *sqlTable, st *sqlStmt, params []sqlVal, alias map[string]*sqlExpr) []*StructVal {
	ev0 := &sqlEnv{p: p, t: t, params: params}
	if lim := int64(p.Concretize(ev0.eval(st.limit).i, "sql.limit")); lim != 1 {
		p.unsupported("sql: order by with limit %d", lim)
	}
	rows := p.selectRows(t, st, params, -1)
	if len(rows) == 0 {
		return nil
	}
	keys := append([]sqlOrderKey{{e: st.orderBy, desc: st.desc}}, st.more...)
	vals := make([][]*Term, len(rows))
	for i, r := range rows {
		ev := &sqlEnv{p: p, t: t, row: r, params: params, alias: alias}
		for _, k := range keys {
			v := ev.eval(k.e)
			if v.isText() {
				p.unsupported("sql: order by a text expression")
			}
			vals[i] = append(vals[i], v.i)
		}
	}
	// before(a, b, strict): row a sorts before row b (or, unless strict, has the same key tuple)
	before := func(a, b int, strict bool) *Term {
		res := TrueT
		if strict {
			res = FalseT
		}
		for k := len(keys) - 1; k >= 0; k-- {
			lt := SLt(vals[a][k], vals[b][k])
			if keys[k].desc {
				lt = SLt(vals[b][k], vals[a][k])
			}
			res = Or(lt, And(Eq(vals[a][k], vals[b][k]), res))
		}
		return res
	}
	for i := range rows {
		c := TrueT
		for j := range rows {
			if j == i {
				continue
			}
			c = And(c, before(i, j, j < i))
		}
		if p.Branch(c) {
			return []*StructVal{rows[i]}
		}
	}
	panic(&abortPath{Kind: "infeasible", Msg: "sql: no top row"})
}
