package engine

import (
	"fmt"
	"go/types"
	"math"
	"math/big"
	"strconv"
	"strings"

	"golang.org/x/tools/go/ssa"
)

func concStr(p *Path, v Value, what string) string {
	s, ok := v.(*StrVal)
	if !ok {
		p.unsupported("%s: expected string, got %T", what, v)
	}
	c, ok := s.Concrete()
	if !ok {
		p.unsupported("%s: string must be concrete, got %s", what, s.String())
	}
	return c
}

func concInt(p *Path, v Value, what string) int64 {
	t := v.(*Term)
	if !t.IsConst() {
		p.unsupported("%s: int must be concrete", what)
	}
	return t.Int64()
}

func boolTerm(b bool) *Term { return BoolC(b) }

func (p *Path) errVal(msg string) Value { return p.E.newErrorValue(p, msg) }

func registerIntrinsics(e *Engine) {
	I := e.Intrinsics
	M := ModelPkg + "."

	// ---------- harness vocabulary ----------
	I[M+"Symbolic"] = func(p *Path, fn *ssa.Function, a []Value) Value { return TrueT }
	I[M+"Tier"] = func(p *Path, fn *ssa.Function, a []Value) Value { return StrC(p.E.Tier) }
	I[M+"Opt"] = func(p *Path, fn *ssa.Function, a []Value) Value {
		return StrC(p.E.Opts[concStr(p, a[0], "Opt")])
	}
	I[M+"Int"] = func(p *Path, fn *ssa.Function, a []Value) Value {
		tag := concStr(p, a[0], "Int tag")
		lo, hi := concInt(p, a[1], "Int lo"), concInt(p, a[2], "Int hi")
		if lo == hi {
			return BVCi(64, lo)
		}
		t := p.Fresh(tag, BV(64))
		p.emit(And(SLe(BVCi(64, lo), t), SLe(t, BVCi(64, hi))))
		t.Lo, t.Hi, t.HasB = lo, hi, true
		if hi-lo < 16 && hi-lo >= 0 {
			for v := lo; v <= hi; v++ {
				t.Dom = append(t.Dom, uint64(v))
			}
		}
		return t
	}
	I[M+"Int64"] = I[M+"Int"]
	I[M+"Bool"] = func(p *Path, fn *ssa.Function, a []Value) Value {
		return p.Fresh(concStr(p, a[0], "Bool tag"), BoolSort)
	}
	I[M+"Byte"] = func(p *Path, fn *ssa.Function, a []Value) Value {
		return p.symByte(concStr(p, a[0], "Byte tag"), concStr(p, a[1], "Byte alphabet"))
	}
	I[M+"String"] = func(p *Path, fn *ssa.Function, a []Value) Value {
		tag := concStr(p, a[0], "String tag")
		lo, hi := int(concInt(p, a[1], "String min")), int(concInt(p, a[2], "String max"))
		alpha := concStr(p, a[3], "String alphabet")
		n := lo + p.Choose(hi-lo+1)
		bs := make([]*Term, n)
		for i := 0; i < n; i++ {
			bs[i] = p.symByte(fmt.Sprintf("%s.%d", tag, i), alpha)
		}
		p.strVars[tag] = bs
		return StrFromTerms(bs)
	}
	I[M+"Choice"] = func(p *Path, fn *ssa.Function, a []Value) Value {
		n := int(concInt(p, a[1], "Choice n"))
		v := p.Choose(n)
		p.note(fmt.Sprintf("%s=%d", concStr(p, a[0], "Choice tag"), v))
		return BVCi(64, int64(v))
	}
	I[M+"Assume"] = func(p *Path, fn *ssa.Function, a []Value) Value {
		p.Assume(a[0].(*Term))
		return nil
	}
	I[M+"Assert"] = func(p *Path, fn *ssa.Function, a []Value) Value {
		p.Assert(concStr(p, a[0], "Assert id"), a[1].(*Term))
		return nil
	}
	I[M+"Cover"] = func(p *Path, fn *ssa.Function, a []Value) Value {
		p.Cover(concStr(p, a[0], "Cover id"), a[1].(*Term))
		return nil
	}
	I[M+"Known"] = func(p *Path, fn *ssa.Function, a []Value) Value {
		p.Known(concStr(p, a[0], "Known id"), a[1].(*Term))
		return nil
	}
	I[M+"Note"] = func(p *Path, fn *ssa.Function, a []Value) Value {
		p.note(showValue(a[0]))
		return nil
	}
	I[M+"Sample"] = func(p *Path, fn *ssa.Function, a []Value) Value {
		if p.sample == nil {
			p.sample = map[string]interface{}{}
		}
		p.sample[concStr(p, a[0], "Sample key")] = showValue(unwrapIface(a[1]))
		return nil
	}
	I[M+"SetUnwind"] = func(p *Path, fn *ssa.Function, a []Value) Value {
		p.unwind = int(concInt(p, a[0], "SetUnwind"))
		return nil
	}
	// UnwindIsViolation(id): from now on a loop that exceeds the unwinding bound is reported as a violation
	// of assertion id (used where termination itself is the property and the bound is derived from the
	// structure of the input) instead of making the run inconclusive.
	I[M+"UnwindIsViolation"] = func(p *Path, fn *ssa.Function, a []Value) Value {
		p.unwindAssert = concStr(p, a[0], "UnwindIsViolation")
		return nil
	}
	I[M+"Stop"] = func(p *Path, fn *ssa.Function, a []Value) Value {
		msg := concStr(p, a[0], "Stop")
		id := "no_deadlock"
		if !strings.HasPrefix(msg, "deadlock") {
			id = "stop"
		}
		p.note(msg)
		p.Assert(id, FalseT)
		return nil
	}
	I[M+"Concretize"] = func(p *Path, fn *ssa.Function, a []Value) Value {
		t := a[0].(*Term)
		return BVC(t.S.W, p.Concretize(t, "harness"))
	}
	I[M+"IsConcrete"] = func(p *Path, fn *ssa.Function, a []Value) Value {
		switch x := unwrapIface(a[0]).(type) {
		case *Term:
			return BoolC(x.IsConst())
		case *StrVal:
			_, ok := x.Concrete()
			return BoolC(ok)
		}
		return TrueT
	}
	// Ite(c, a, b int) int : merge without forking
	I[M+"Ite"] = func(p *Path, fn *ssa.Function, a []Value) Value {
		return Ite(a[0].(*Term), a[1].(*Term), a[2].(*Term))
	}
	I[M+"And"] = func(p *Path, fn *ssa.Function, a []Value) Value { return And(a[0].(*Term), a[1].(*Term)) }
	I[M+"Or"] = func(p *Path, fn *ssa.Function, a []Value) Value { return Or(a[0].(*Term), a[1].(*Term)) }
	I[M+"Implies"] = func(p *Path, fn *ssa.Function, a []Value) Value {
		return Implies(a[0].(*Term), a[1].(*Term))
	}
	// HasPrefixT(s, prefix) bool as a term (no fork)
	I[M+"HasPrefixT"] = func(p *Path, fn *ssa.Function, a []Value) Value {
		s, pre := a[0].(*StrVal), a[1].(*StrVal)
		if len(pre.B) > len(s.B) {
			return FalseT
		}
		return StrEq(StrFromTerms(s.B[:len(pre.B)]), pre)
	}
	I[M+"NewError"] = func(p *Path, fn *ssa.Function, a []Value) Value {
		return p.errVal(concStr(p, a[0], "NewError"))
	}
	I[M+"Ghost"] = func(p *Path, fn *ssa.Function, a []Value) Value {
		k := concStr(p, a[0], "Ghost key")
		if v, ok := p.ghost[k]; ok {
			return v
		}
		return NilIface
	}
	I[M+"SetGhost"] = func(p *Path, fn *ssa.Function, a []Value) Value {
		p.ghost[concStr(p, a[0], "Ghost key")] = a[1]
		return nil
	}

	// ---------- fmt / errors / strconv ----------
	I["fmt.Sprintf"] = func(p *Path, fn *ssa.Function, a []Value) Value {
		return StrC(p.sprintf(a))
	}
	I["fmt.Errorf"] = func(p *Path, fn *ssa.Function, a []Value) Value {
		return p.errVal(p.sprintf(a))
	}
	I["fmt.Sprint"] = func(p *Path, fn *ssa.Function, a []Value) Value {
		var sb strings.Builder
		args := a[0].(*SliceVal)
		for i := 0; i < args.lenOrZero(); i++ {
			sb.WriteString(fmt.Sprint(p.nativeOf(args.Arr().Get(args.Off + i))))
		}
		return StrC(sb.String())
	}
	I["errors.New"] = func(p *Path, fn *ssa.Function, a []Value) Value {
		s := a[0].(*StrVal)
		c, ok := s.Concrete()
		if !ok {
			c = "<symbolic message>"
		}
		return p.errVal(c)
	}
	I["errors.Is"] = func(p *Path, fn *ssa.Function, a []Value) Value {
		err, target := a[0].(*IfaceVal), a[1].(*IfaceVal)
		for depth := 0; depth < 4; depth++ {
			if err.IsNil() {
				return BoolC(target.IsNil())
			}
			eq := p.valueEq(err, target)
			if eq.IsTrue() {
				return TrueT
			}
			// unwrap
			u := p.E.lookupMethod(err.T, nil, "Unwrap")
			if u == nil {
				return eq
			}
			r := p.CallFn(u, []Value{err.V}, nil)
			ne, ok := r.(*IfaceVal)
			if !ok {
				return eq
			}
			err = ne
		}
		return FalseT
	}
	I["strconv.Itoa"] = func(p *Path, fn *ssa.Function, a []Value) Value {
		t := a[0].(*Term)
		if t.IsConst() {
			return StrC(strconv.Itoa(int(t.Int64())))
		}
		// symbolic integer rendered as an opaque numeric token that Atoi inverts
		return p.numToken(t)
	}
	I["strconv.Atoi"] = func(p *Path, fn *ssa.Function, a []Value) Value {
		s := a[0].(*StrVal)
		if t, ok := p.tokenNum(s); ok {
			return TupleVal{t, NilIface}
		}
		c, ok := s.Concrete()
		if !ok {
			// decide digit-ness by concretizing bytes (bounded alphabets)
			bs := make([]byte, len(s.B))
			for i, b := range s.B {
				bs[i] = byte(p.Concretize(b, "atoi"))
			}
			c = string(bs)
		}
		v, err := strconv.Atoi(c)
		if err != nil {
			return TupleVal{BVC(64, 0), p.errVal(err.Error())}
		}
		return TupleVal{BVCi(64, int64(v)), NilIface}
	}
	I["strconv.FormatInt"] = func(p *Path, fn *ssa.Function, a []Value) Value {
		return StrC(strconv.FormatInt(concInt(p, a[0], "FormatInt"), int(concInt(p, a[1], "FormatInt base"))))
	}

	// ---------- math ----------
	I["math.Ceil"] = func(p *Path, fn *ssa.Function, a []Value) Value { return p.fpRound("fp.ceil", a[0].(*Term)) }
	I["math.Floor"] = func(p *Path, fn *ssa.Function, a []Value) Value { return p.fpRound("fp.floor", a[0].(*Term)) }
	I["math.Trunc"] = func(p *Path, fn *ssa.Function, a []Value) Value { return p.fpRound("fp.trunc", a[0].(*Term)) }
	I["math.Round"] = func(p *Path, fn *ssa.Function, a []Value) Value { return p.fpRound("fp.round", a[0].(*Term)) }

	// ---------- bytealg leaves ----------
	idxByte := func(p *Path, fn *ssa.Function, a []Value) Value {
		bs := bytesOf(a[0])
		c := a[1].(*Term)
		for i, b := range bs {
			if p.Branch(Eq(b, c)) {
				return BVCi(64, int64(i))
			}
		}
		return BVCi(64, -1)
	}
	lastIdxByte := func(p *Path, fn *ssa.Function, a []Value) Value {
		bs := bytesOf(a[0])
		c := a[1].(*Term)
		for i := len(bs) - 1; i >= 0; i-- {
			if p.Branch(Eq(bs[i], c)) {
				return BVCi(64, int64(i))
			}
		}
		return BVCi(64, -1)
	}
	I["internal/bytealg.LastIndexByteString"] = lastIdxByte
	I["internal/bytealg.LastIndexByte"] = lastIdxByte
	I["internal/bytealg.IndexByteString"] = idxByte
	I["internal/bytealg.IndexByte"] = idxByte
	cnt := func(p *Path, fn *ssa.Function, a []Value) Value {
		bs := bytesOf(a[0])
		c := a[1].(*Term)
		n := BVC(64, 0)
		for _, b := range bs {
			n = Add(n, Ite(Eq(b, c), BVC(64, 1), BVC(64, 0)))
		}
		return n
	}
	I["internal/bytealg.CountString"] = cnt
	I["internal/bytealg.Count"] = cnt
	I["internal/bytealg.Equal"] = func(p *Path, fn *ssa.Function, a []Value) Value {
		return StrEq(StrFromTerms(bytesOf(a[0])), StrFromTerms(bytesOf(a[1])))
	}
	idx := func(p *Path, fn *ssa.Function, a []Value) Value {
		hs, nd := bytesOf(a[0]), bytesOf(a[1])
		for i := 0; i+len(nd) <= len(hs); i++ {
			if p.Branch(StrEq(StrFromTerms(hs[i:i+len(nd)]), StrFromTerms(nd))) {
				return BVCi(64, int64(i))
			}
		}
		return BVCi(64, -1)
	}
	I["internal/bytealg.IndexString"] = idx
	I["internal/bytealg.Index"] = idx
	I["internal/bytealg.MakeNoZero"] = func(p *Path, fn *ssa.Function, a []Value) Value {
		n := int(concInt(p, a[0], "MakeNoZero"))
		o := p.newArrayObj(types.Typ[types.Byte], n)
		return &SliceVal{Obj: o, Len: n, Cap: n}
	}
	I["internal/bytealg.Compare"] = func(p *Path, fn *ssa.Function, a []Value) Value {
		x, y := StrFromTerms(bytesOf(a[0])), StrFromTerms(bytesOf(a[1]))
		return Ite(StrEq(x, y), BVC(64, 0), Ite(StrLt(x, y), BVCi(64, -1), BVC(64, 1)))
	}
	// strings.Builder internals use unsafe; model the few entry points used
	I["unsafe.String"] = func(p *Path, fn *ssa.Function, a []Value) Value {
		p.unsupported("unsafe.String")
		return nil
	}
	I["internal/abi.NoEscape"] = func(p *Path, fn *ssa.Function, a []Value) Value { return a[0] }
	I["(*strings.Builder).copyCheck"] = func(p *Path, fn *ssa.Function, a []Value) Value { return nil }
	I["(*strings.Builder).String"] = func(p *Path, fn *ssa.Function, a []Value) Value {
		b := a[0].(*Pointer).load().(*StructVal)
		// field 1 is buf []byte
		sl := b.F[1].(*SliceVal)
		return StrFromTerms(bytesOf(sl))
	}

	// ---------- misc runtime-ish ----------
	I["context.Background"] = func(p *Path, fn *ssa.Function, a []Value) Value {
		return &IfaceVal{T: opaqueType("context.backgroundCtx"), V: &StructVal{}}
	}
	I["context.TODO"] = I["context.Background"]
	I["os.IsNotExist"] = func(p *Path, fn *ssa.Function, a []Value) Value {
		err := a[0].(*IfaceVal)
		ne := p.global(p.E.findGlobal("io/fs", "ErrNotExist")).Val
		return p.valueEq(err, ne)
	}
	I["time.Now"] = func(p *Path, fn *ssa.Function, a []Value) Value {
		return p.symTime(fn.Signature.Results().At(0).Type(), "now")
	}
	I["time.Unix"] = func(p *Path, fn *ssa.Function, a []Value) Value {
		tv := p.E.zero(fn.Signature.Results().At(0).Type()).(*StructVal)
		// ext := sec*1e9+nsec kept as an opaque combination
		tv.F[1] = Add(Mul(a[0].(*Term), BVC(64, 1000000000)), a[1].(*Term))
		return tv
	}
	timeGet := func(p *Path, fn *ssa.Function, a []Value) Value {
		return a[0].(*StructVal).F[1]
	}
	I["(time.Time).UnixNano"] = timeGet
	I["(time.Time).Unix"] = func(p *Path, fn *ssa.Function, a []Value) Value {
		return SDiv(a[0].(*StructVal).F[1].(*Term), BVC(64, 1000000000))
	}
	I["(time.Time).Equal"] = func(p *Path, fn *ssa.Function, a []Value) Value {
		return Eq(a[0].(*StructVal).F[1].(*Term), a[1].(*StructVal).F[1].(*Term))
	}
	I["(time.Time).IsZero"] = func(p *Path, fn *ssa.Function, a []Value) Value {
		return Eq(a[0].(*StructVal).F[1].(*Term), BVC(64, 0))
	}
	I["(time.Time).Before"] = func(p *Path, fn *ssa.Function, a []Value) Value {
		return SLt(a[0].(*StructVal).F[1].(*Term), a[1].(*StructVal).F[1].(*Term))
	}
	I["(time.Time).After"] = func(p *Path, fn *ssa.Function, a []Value) Value {
		return SLt(a[1].(*StructVal).F[1].(*Term), a[0].(*StructVal).F[1].(*Term))
	}
	I["(time.Time).Nanosecond"] = func(p *Path, fn *ssa.Function, a []Value) Value {
		return SRem(a[0].(*StructVal).F[1].(*Term), BVC(64, 1000000000))
	}
	I["(syscall.Timespec).Nano"] = func(p *Path, fn *ssa.Function, a []Value) Value {
		ts := a[0].(*StructVal)
		return Add(Mul(ts.F[0].(*Term), BVC(64, 1000000000)), ts.F[1].(*Term))
	}
	I["(*syscall.Timespec).Nano"] = func(p *Path, fn *ssa.Function, a []Value) Value {
		ts := a[0].(*Pointer).load().(*StructVal)
		return Add(Mul(ts.F[0].(*Term), BVC(64, 1000000000)), ts.F[1].(*Term))
	}
	I["syscall.NsecToTimespec"] = func(p *Path, fn *ssa.Function, a []Value) Value {
		ts := p.E.zero(fn.Signature.Results().At(0).Type()).(*StructVal)
		n := a[0].(*Term)
		ts.F[0] = SDiv(n, BVC(64, 1000000000))
		ts.F[1] = SRem(n, BVC(64, 1000000000))
		return ts
	}
	I["runtime.Gosched"] = func(p *Path, fn *ssa.Function, a []Value) Value { return nil }
	I["runtime.KeepAlive"] = func(p *Path, fn *ssa.Function, a []Value) Value { return nil }
}

func unwrapIface(v Value) Value {
	if iv, ok := v.(*IfaceVal); ok {
		if iv.IsNil() {
			return nil
		}
		return iv.V
	}
	return v
}

var opaqueTypes = map[string]types.Type{}

func opaqueType(name string) types.Type {
	if t, ok := opaqueTypes[name]; ok {
		return t
	}
	t := types.NewNamed(types.NewTypeName(0, nil, "opaque:"+name, nil), types.NewStruct(nil, nil), nil)
	opaqueTypes[name] = t
	return t
}

func (e *Engine) findGlobal(pkg, name string) *ssa.Global {
	for _, sp := range e.Prog.AllPackages() {
		if sp.Pkg.Path() == pkg {
			if g, ok := sp.Members[name].(*ssa.Global); ok {
				return g
			}
		}
	}
	return nil
}

func bytesOf(v Value) []*Term {
	switch x := v.(type) {
	case *StrVal:
		return x.B
	case *SliceVal:
		if x.IsNil() {
			return nil
		}
		arr := x.Arr()
		out := make([]*Term, x.Len)
		for i := 0; i < x.Len; i++ {
			out[i] = arr.Get(x.Off + i).(*Term)
		}
		return out
	}
	panic(fmt.Sprintf("bytesOf %T", v))
}

func (p *Path) symByte(tag, alphabet string) *Term {
	t := p.Fresh(tag, BV(8))
	if alphabet != "" {
		var cs []*Term
		seen := map[byte]bool{}
		for i := 0; i < len(alphabet); i++ {
			c := alphabet[i]
			if seen[c] {
				continue
			}
			seen[c] = true
			t.Dom = append(t.Dom, uint64(c))
			cs = append(cs, &Term{Op: "=", S: BoolSort, Args: []*Term{t, byteConst(c)}})
		}
		p.emit(Or(cs...))
	}
	return t
}

func (p *Path) symTime(t types.Type, tag string) Value {
	tv := p.E.zero(t).(*StructVal)
	tv.F[1] = p.Fresh("time."+tag, BV(64))
	return tv
}

// nativeOf converts a concrete engine value to a native Go value for formatting.
func (p *Path) nativeOf(v Value) interface{} {
	switch x := v.(type) {
	case *IfaceVal:
		if x.IsNil() {
			return nil
		}
		if b, ok := x.T.Underlying().(*types.Basic); ok {
			if _, signed, isInt := basicWidth(b); isInt {
				t := x.V.(*Term)
				if !t.IsConst() {
					p.unsupported("formatting symbolic integer")
				}
				if signed {
					return t.Int64()
				}
				return t.C
			}
		}
		if p.isErrorType(x.T) {
			r := p.invoke(x, "Error", nil, nil)
			return fmt.Errorf("%s", concStr(p, r, "error text"))
		}
		return p.nativeOf(x.V)
	case *Term:
		if !x.IsConst() {
			p.unsupported("formatting symbolic value")
		}
		if x.S.K == KBool {
			return x.C == 1
		}
		return x.Int64()
	case *StrVal:
		return concStr(p, x, "format arg")
	}
	p.unsupported("formatting %T", v)
	return nil
}

func (p *Path) sprintf(a []Value) string {
	format := concStr(p, a[0], "format")
	var args []interface{}
	if sl, ok := a[1].(*SliceVal); ok && !sl.IsNil() {
		arr := sl.Arr()
		for i := 0; i < sl.Len; i++ {
			args = append(args, p.nativeOf(arr.Get(sl.Off+i)))
		}
	}
	return fmt.Sprintf(format, args...)
}

// ---------- numeric tokens (symbolic Itoa/Atoi round trip) ----------

const numTokenPrefix = "\x00NUM#"

func (p *Path) numToken(t *Term) Value {
	toks, _ := p.ghost["numtokens"].([]*Term)
	toks = append(toks, t)
	p.ghost["numtokens"] = toks
	return StrC(fmt.Sprintf("%s%d", numTokenPrefix, len(toks)-1))
}

func (p *Path) tokenNum(s *StrVal) (*Term, bool) {
	c, ok := s.Concrete()
	if !ok || !strings.HasPrefix(c, numTokenPrefix) {
		return nil, false
	}
	i, err := strconv.Atoi(c[len(numTokenPrefix):])
	toks, _ := p.ghost["numtokens"].([]*Term)
	if err != nil || i >= len(toks) {
		return nil, false
	}
	return toks[i], true
}

// ---------- floating point cut ----------

func (p *Path) fpRound(op string, x *Term) Value {
	if x.IsConst() {
		f := math.Float64frombits(x.C)
		switch op {
		case "fp.ceil":
			f = math.Ceil(f)
		case "fp.floor":
			f = math.Floor(f)
		case "fp.trunc":
			f = math.Trunc(f)
		case "fp.round":
			f = math.Round(f)
		}
		return FPConst(math.Float64bits(f))
	}
	return FPUn(op, x)
}

// fpCut recognises round(float64(x) / c) converted back to an integer and replaces it by exact
// integer arithmetic after proving the corresponding lemma for 0 <= x < 2^44 with the solver.
func (p *Path) fpCut(t *Term, w int, signed bool) (*Term, bool) {
	if w != 64 {
		return nil, false
	}
	op := t.Op
	if op != "fp.ceil" && op != "fp.floor" && op != "fp.trunc" && op != "fp.round" {
		return nil, false
	}
	d := t.Args[0]
	if d.Op != "fp.div" {
		return nil, false
	}
	num, den := d.Args[0], d.Args[1]
	if num.Op != "sbv2fp" || !den.IsConst() {
		return nil, false
	}
	x := num.Args[0]
	if x.S.W != 64 {
		return nil, false
	}
	df := math.Float64frombits(den.C)
	if df < 1 || df != math.Trunc(df) || df > 1<<20 {
		return nil, false
	}
	c := uint64(df)
	mk := func(x *Term) *Term {
		switch op {
		case "fp.ceil":
			return UDiv(Add(x, BVC(64, c-1)), BVC(64, c))
		case "fp.round":
			// round half away from zero of a non-negative quotient: floor((2x + c) / 2c)
			return UDiv(Add(Mul(x, BVC(64, 2)), BVC(64, c)), BVC(64, 2*c))
		default:
			return UDiv(x, BVC(64, c))
		}
	}
	key := fmt.Sprintf("%s/%d", op, c)
	p.E.mu.Lock()
	st := p.E.fpLemmas[key]
	p.E.mu.Unlock()
	if st == 0 {
		// prove: forall 0<=v<2^44 : to_sbv(round(to_fp(v)/c)) == int-expr(v)
		v := Var("fplemma_v", BV(64))
		lhs := FP2SBV(FPUn(op, FPBin("fp.div", SBV2FP(v), den)), 64)
		neg := And(SLe(BVC(64, 0), v), SLt(v, BVC(64, 1<<44)), Ne(lhs, mk(v)))
		s, err := NewSolver("z3", 60000)
		st = 2
		if err == nil {
			s.Assert(neg)
			if s.Check() == "unsat" {
				st = 1
			}
			p.E.mu.Lock()
			p.E.lemmaTime += s.SolveTime
			p.E.lemmaQueries++
			p.E.mu.Unlock()
			s.Close()
		}
		p.E.mu.Lock()
		p.E.fpLemmas[key] = st
		p.E.mu.Unlock()
	}
	if st != 1 {
		return nil, false
	}
	// the cut needs 0 <= x < 2^44: first by interval reasoning, else by one recorded solver query
	if lo, hi, ok := interval(x, 0); ok && lo.Sign() >= 0 && hi.Cmp(big.NewInt(1<<44)) < 0 {
		return mk(x), true
	}
	inRange := And(SLe(BVC(64, 0), x), SLt(x, BVC(64, 1<<44)))
	if inRange.IsTrue() {
		return mk(x), true
	}
	if p.w == nil {
		return nil, false
	}
	var okCut bool
	i := p.nDec
	if i < len(p.prefix) {
		okCut = p.prefix[i].Val == 1
	} else {
		okCut = p.w.s.CheckWith(Not(inRange)) == "unsat"
	}
	v := 0
	if okCut {
		v = 1
	}
	p.record(Decision{Val: v, Forced: true})
	if okCut {
		return mk(x), true
	}
	p.X.mu.Lock()
	p.X.res.Notes["floating-point position term kept (range 0<=x<2^44 not implied)"]++
	p.X.mu.Unlock()
	return nil, false
}

func (p *Path) fpCutOK(key string) {}
