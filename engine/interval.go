package engine

import "math/big"

// Interval pre-check: decides comparisons between bounded linear forms without a solver call.
// It only uses the declared ranges of harness variables (which are part of the path condition) and
// exact integer arithmetic; whenever wrap-around is possible it gives up and the solver decides.

var (
	bigMinI64 = big.NewInt(-1 << 63)
	bigMaxI64 = new(big.Int).SetUint64(1<<63 - 1)
)

func fitsI64(x *big.Int) bool { return x.Cmp(bigMinI64) >= 0 && x.Cmp(bigMaxI64) <= 0 }

func signedBig(v uint64, w int) *big.Int { return big.NewInt(sx(v, w)) }

// interval returns signed bounds of a BV term when they can be derived without wrap-around.
func interval(t *Term, depth int) (lo, hi *big.Int, ok bool) {
	if t.S.K != KBV || depth > 12 {
		return nil, nil, false
	}
	w := t.S.W
	switch t.Op {
	case "const":
		v := signedBig(t.C, w)
		return v, v, true
	case "var":
		if t.HasB {
			return big.NewInt(t.Lo), big.NewInt(t.Hi), true
		}
		return nil, nil, false
	case "lin":
		if rl, rh, ok := linRemInterval(t, depth); ok {
			return rl, rh, true
		}
		lo = signedBig(t.C, w)
		hi = signedBig(t.C, w)
		for i, a := range t.Args {
			alo, ahi, ok := interval(a, depth+1)
			if !ok {
				return nil, nil, false
			}
			k := signedBig(t.Coef[i], w)
			x := new(big.Int).Mul(k, alo)
			y := new(big.Int).Mul(k, ahi)
			if x.Cmp(y) > 0 {
				x, y = y, x
			}
			lo = new(big.Int).Add(lo, x)
			hi = new(big.Int).Add(hi, y)
		}
		if w != 64 || !fitsI64(lo) || !fitsI64(hi) {
			return nil, nil, false
		}
		return lo, hi, true
	case "ite":
		alo, ahi, ok1 := interval(t.Args[1], depth+1)
		blo, bhi, ok2 := interval(t.Args[2], depth+1)
		if !ok1 || !ok2 {
			return nil, nil, false
		}
		if blo.Cmp(alo) < 0 {
			alo = blo
		}
		if bhi.Cmp(ahi) > 0 {
			ahi = bhi
		}
		return alo, ahi, true
	case "zext":
		a := t.Args[0]
		if a.Op == "var" && a.Dom != nil {
			mn, mx := a.Dom[0], a.Dom[0]
			for _, d := range a.Dom {
				if d < mn {
					mn = d
				}
				if d > mx {
					mx = d
				}
			}
			return new(big.Int).SetUint64(mn), new(big.Int).SetUint64(mx), true
		}
		if a.S.W < 64 {
			return big.NewInt(0), new(big.Int).SetUint64(mask(a.S.W)), true
		}
		return nil, nil, false
	case "sext":
		return interval(t.Args[0], depth+1)
	case "bvlshr", "bvashr":
		if !t.Args[1].IsConst() {
			return nil, nil, false
		}
		alo, ahi, ok := interval(t.Args[0], depth+1)
		if !ok || alo.Sign() < 0 {
			return nil, nil, false
		}
		k := uint(t.Args[1].C)
		return new(big.Int).Rsh(alo, k), new(big.Int).Rsh(ahi, k), true
	case "bvudiv", "bvsdiv":
		if !t.Args[1].IsConst() || sx(t.Args[1].C, w) <= 0 {
			return nil, nil, false
		}
		alo, ahi, ok := interval(t.Args[0], depth+1)
		if !ok || alo.Sign() < 0 {
			return nil, nil, false
		}
		c := signedBig(t.Args[1].C, w)
		return new(big.Int).Quo(alo, c), new(big.Int).Quo(ahi, c), true
	case "bvurem", "bvsrem":
		if !t.Args[1].IsConst() || sx(t.Args[1].C, w) <= 0 {
			return nil, nil, false
		}
		alo, _, ok := interval(t.Args[0], depth+1)
		if !ok || alo.Sign() < 0 {
			return nil, nil, false
		}
		return big.NewInt(0), new(big.Int).Sub(signedBig(t.Args[1].C, w), big.NewInt(1)), true
	case "bvand":
		for _, a := range t.Args {
			if a.IsConst() && sx(a.C, w) >= 0 {
				return big.NewInt(0), signedBig(a.C, w), true
			}
		}
		return nil, nil, false
	case "bvmul":
		alo, ahi, ok1 := interval(t.Args[0], depth+1)
		blo, bhi, ok2 := interval(t.Args[1], depth+1)
		if !ok1 || !ok2 || alo.Sign() < 0 || blo.Sign() < 0 {
			return nil, nil, false
		}
		lo = new(big.Int).Mul(alo, blo)
		hi = new(big.Int).Mul(ahi, bhi)
		if !fitsI64(hi) {
			return nil, nil, false
		}
		return lo, hi, true
	}
	return nil, nil, false
}

// quickDecide returns (value, true) when the Boolean term is decided by interval reasoning.
func quickDecide(c *Term, depth int) (bool, bool) {
	if depth > 6 {
		return false, false
	}
	switch c.Op {
	case "const":
		return c.C == 1, true
	case "not":
		v, ok := quickDecide(c.Args[0], depth+1)
		return !v, ok
	case "and":
		all := true
		for _, a := range c.Args {
			v, ok := quickDecide(a, depth+1)
			if ok && !v {
				return false, true
			}
			if !ok {
				all = false
			}
		}
		return true, all
	case "or":
		all := true
		for _, a := range c.Args {
			v, ok := quickDecide(a, depth+1)
			if ok && v {
				return true, true
			}
			if !ok {
				all = false
			}
		}
		return false, all
	case "bvslt", "bvsle", "=":
		a, b := c.Args[0], c.Args[1]
		if a.S.K != KBV || a.S.W != 64 {
			return false, false
		}
		// both sides must be wrap-free, then the difference is compared as integers
		if _, _, ok := interval(a, 0); !ok {
			return false, false
		}
		if _, _, ok := interval(b, 0); !ok {
			return false, false
		}
		d := linCombine(a, 1, b, mask(64))
		dlo, dhi, ok := interval(d, 0)
		if !ok {
			return false, false
		}
		switch c.Op {
		case "bvslt":
			if dhi.Sign() < 0 {
				return true, true
			}
			if dlo.Sign() >= 0 {
				return false, true
			}
		case "bvsle":
			if dhi.Sign() <= 0 {
				return true, true
			}
			if dlo.Sign() > 0 {
				return false, true
			}
		case "=":
			if dlo.Sign() > 0 || dhi.Sign() < 0 {
				return false, true
			}
			if dlo.Sign() == 0 && dhi.Sign() == 0 {
				return true, true
			}
		}
	}
	return false, false
}

// splitDiv rewrites floor(x / c) for a wrap-free non-negative linear form x = c*K + t (t >= 0) into
// K + floor(t / c). mk builds the division of the remainder.
func splitDiv(x *Term, c uint64, mk func(t *Term) *Term) (*Term, bool) {
	if x.Op != "lin" || x.S.W != 64 || c <= 1 {
		return nil, false
	}
	lo, hi, ok := interval(x, 0)
	if !ok || lo.Sign() < 0 || !fitsI64(hi) {
		return nil, false
	}
	var kParts, tParts []linPart
	for i, a := range x.Args {
		co := x.Coef[i]
		if sx(co, 64) > 0 && co%c == 0 {
			kParts = append(kParts, linPart{a, co / c})
		} else {
			tParts = append(tParts, linPart{a, co})
		}
	}
	if len(kParts) == 0 && x.C < c {
		return nil, false
	}
	kc := x.C / c
	tc := x.C % c
	if sx(x.C, 64) < 0 {
		kc, tc = 0, x.C
	}
	K := linBuild(kParts, kc, 64)
	T := linBuild(tParts, tc, 64)
	klo, _, ok1 := interval(K, 0)
	tlo, _, ok2 := interval(T, 0)
	if !ok1 || !ok2 || klo.Sign() < 0 || tlo.Sign() < 0 {
		return nil, false
	}
	return linCombine(K, 1, mk(T), 1), true
}

// normCmp rewrites a signed comparison of wrap-free linear forms into a comparison of their
// (cancelled) difference with zero.
func normCmp(c *Term) *Term {
	switch c.Op {
	case "not":
		n := normCmp(c.Args[0])
		if n == c.Args[0] {
			return c
		}
		return Not(n)
	case "and", "or":
		changed := false
		args := make([]*Term, len(c.Args))
		for i, a := range c.Args {
			args[i] = normCmp(a)
			if args[i] != a {
				changed = true
			}
		}
		if !changed {
			return c
		}
		if c.Op == "and" {
			return And(args...)
		}
		return Or(args...)
	case "bvslt", "bvsle", "=":
		a, b := c.Args[0], c.Args[1]
		if a.S.K != KBV || a.S.W != 64 || (a.Op != "lin" && b.Op != "lin") {
			return c
		}
		if b.IsConst() && b.C == 0 {
			return c
		}
		if _, _, ok := interval(a, 0); !ok {
			return c
		}
		if _, _, ok := interval(b, 0); !ok {
			return c
		}
		d := linCombine(a, 1, b, mask(64))
		if _, _, ok := interval(d, 0); !ok {
			return c
		}
		z := BVC(64, 0)
		switch c.Op {
		case "bvslt":
			return cmp("bvslt", d, z)
		case "bvsle":
			return cmp("bvsle", d, z)
		default:
			if d.IsConst() {
				return BoolC(d.C == 0)
			}
			return &Term{Op: "=", S: BoolSort, Args: []*Term{d, z}}
		}
	}
	return c
}


// linRemInterval recognises  rest + k*X - k*c*div(X, c)  inside a linear form and bounds it as
// rest + k*[0, c-1] (X >= 0, c > 0), i.e. it knows that x - c*(x/c) is the remainder.
func linRemInterval(t *Term, depth int) (lo, hi *big.Int, ok bool) {
	if t.S.W != 64 || depth > 8 {
		return nil, nil, false
	}
	for i, a := range t.Args {
		if (a.Op != "bvsdiv" && a.Op != "bvudiv") || !a.Args[1].IsConst() {
			continue
		}
		c := sx(a.Args[1].C, 64)
		if c <= 1 {
			continue
		}
		co := sx(t.Coef[i], 64)
		if co%c != 0 {
			continue
		}
		k := -co / c
		X := a.Args[0]
		xlo, _, okx := interval(X, depth+1)
		if !okx || xlo.Sign() < 0 {
			continue
		}
		// rest = t - co*A - k*X
		rest := linCombine(t, 1, a, uint64(-co))
		rest = linCombine(rest, 1, X, uint64(-k))
		nRest := 0
		if rest.Op == "lin" {
			nRest = len(rest.Args)
		} else if !rest.IsConst() {
			nRest = 1
		}
		if nRest >= len(t.Args) {
			continue
		}
		rlo, rhi, okr := interval(rest, depth+1)
		if !okr {
			continue
		}
		span := big.NewInt(k * (c - 1))
		if k >= 0 {
			return rlo, new(big.Int).Add(rhi, span), true
		}
		return new(big.Int).Add(rlo, span), rhi, true
	}
	return nil, nil, false
}
