package engine

import (
	"crypto/sha256"
	"fmt"
	"go/ast"
	"go/types"
	"os"
	"path/filepath"
	"sort"
	"strings"
	"sync"
	"time"

	"golang.org/x/tools/go/packages"
	"golang.org/x/tools/go/ssa"
)

type Engine struct {
	Prog *ssa.Program
	Pkgs []*packages.Package
	SSA  map[string]*ssa.Package

	Replace    map[string]*ssa.Function
	Intrinsics map[string]Intrinsic
	fnInfos    map[*ssa.Function]*fnInfo
	methodCache map[methodKey]*ssa.Function
	mu         sync.Mutex

	InitPkgs []string // packages whose init() is executed per path (in order)

	MaxSteps      int
	Unwind        int
	MaxConcretize int
	ExploreKnown  bool

	initCache *initSnapshot
	Tier      string
	Opts      map[string]string
	fpLemmas  map[string]int // 0 unknown, 1 proved, 2 failed
	lemmaTime time.Duration
	lemmaQueries int
	LoadErrs  []string
	Scratch   string
	SrcHash   map[string]string
}

type LoadConfig struct {
	RepoDir  string
	Patterns []string          // packages loaded from source
	Overlay  map[string]string // virtual path -> real file
	Init     []string
}

const ModelPkg = "github.com/pojntfx/stfs/internal/verifmodel"

// copyTree copies src into dst, skipping .git.
func copyTree(src, dst string) error {
	return filepath.Walk(src, func(path string, info os.FileInfo, err error) error {
		if err != nil {
			return err
		}
		rel, _ := filepath.Rel(src, path)
		if rel == ".git" || strings.HasPrefix(rel, ".git"+string(filepath.Separator)) {
			if info.IsDir() {
				return filepath.SkipDir
			}
			return nil
		}
		target := filepath.Join(dst, rel)
		if info.IsDir() {
			return os.MkdirAll(target, 0o755)
		}
		if !info.Mode().IsRegular() {
			return nil
		}
		b, err := os.ReadFile(path)
		if err != nil {
			return err
		}
		return os.WriteFile(target, b, 0o644)
	})
}

// Load copies the repository's current working tree into a scratch directory, adds the harness and
// model files (cfg.Overlay: path relative to the repo root -> real file) and loads the packages
// named in cfg.Patterns from source; every other dependency comes from export data.
func Load(cfg LoadConfig) (*Engine, error) {
	scratch, err := os.MkdirTemp("", "gosym-")
	if err != nil {
		return nil, err
	}
	if err := copyTree(cfg.RepoDir, scratch); err != nil {
		os.RemoveAll(scratch)
		return nil, err
	}
	for virt, real := range cfg.Overlay {
		b, err := os.ReadFile(real)
		if err != nil {
			os.RemoveAll(scratch)
			return nil, err
		}
		target := filepath.Join(scratch, virt)
		os.MkdirAll(filepath.Dir(target), 0o755)
		if err := os.WriteFile(target, b, 0o644); err != nil {
			os.RemoveAll(scratch)
			return nil, err
		}
	}
	pcfg := &packages.Config{
		Mode: packages.NeedName | packages.NeedFiles | packages.NeedCompiledGoFiles | packages.NeedImports | packages.NeedTypes | packages.NeedTypesSizes | packages.NeedSyntax | packages.NeedTypesInfo,
		Dir:  scratch,
		Env:  append(os.Environ(), "GOFLAGS=-mod=mod", "GOPROXY=off", "GOSUMDB=off", "GOTOOLCHAIN=local", "CGO_ENABLED=0"),
	}
	pkgs, err := packages.Load(pcfg, cfg.Patterns...)
	if err != nil {
		os.RemoveAll(scratch)
		return nil, err
	}
	e := &Engine{Scratch: scratch, Replace: map[string]*ssa.Function{}, Intrinsics: map[string]Intrinsic{}, fnInfos: map[*ssa.Function]*fnInfo{}, methodCache: map[methodKey]*ssa.Function{}, SSA: map[string]*ssa.Package{}, fpLemmas: map[string]int{}, SrcHash: map[string]string{}, Opts: map[string]string{}}
	for _, p := range pkgs {
		for _, er := range p.Errors {
			e.LoadErrs = append(e.LoadErrs, p.PkgPath+": "+er.Error())
		}
	}
	if len(e.LoadErrs) > 0 {
		return e, fmt.Errorf("load errors: %s", strings.Join(e.LoadErrs, "; "))
	}
	// SSA: bodies only for the packages named in the patterns; every other package is external
	var fset = pkgs[0].Fset
	prog := ssa.NewProgram(fset, ssa.InstantiateGenerics)
	isRoot := map[*packages.Package]bool{}
	for _, p := range pkgs {
		isRoot[p] = true
	}
	created := map[*packages.Package]*ssa.Package{}
	packages.Visit(pkgs, nil, func(p *packages.Package) {
		if p.Types == nil || p.IllTyped {
			if isRoot[p] {
				e.LoadErrs = append(e.LoadErrs, p.PkgPath+": ill-typed")
			}
			return
		}
		if isRoot[p] {
			created[p] = prog.CreatePackage(p.Types, p.Syntax, p.TypesInfo, true)
		} else {
			created[p] = prog.CreatePackage(p.Types, nil, nil, true)
		}
	})
	e.Prog = prog
	e.Pkgs = pkgs
	for _, p := range pkgs {
		if sp := created[p]; sp != nil {
			sp.Build()
			e.SSA[p.PkgPath] = sp
		}
	}
	// source hashes of repo files (evidence)
	for _, p := range pkgs {
		if !strings.HasPrefix(p.PkgPath, "github.com/pojntfx/stfs") {
			continue
		}
		for _, f := range p.CompiledGoFiles {
			if b, err := os.ReadFile(f); err == nil {
				rel, _ := filepath.Rel(scratch, f)
				e.SrcHash[rel] = fmt.Sprintf("%x", sha256.Sum256(b))[:16]
			}
		}
	}
	// replacement directives: //verif:replace <full function name>
	for _, p := range pkgs {
		sp := e.SSA[p.PkgPath]
		if sp == nil {
			continue
		}
		for _, f := range p.Syntax {
			for _, d := range f.Decls {
				fd, ok := d.(*ast.FuncDecl)
				if !ok || fd.Doc == nil {
					continue
				}
				for _, c := range fd.Doc.List {
					if strings.HasPrefix(c.Text, "//verif:replace ") {
						target := strings.TrimSpace(strings.TrimPrefix(c.Text, "//verif:replace "))
						obj := p.TypesInfo.Defs[fd.Name]
						fn := prog.FuncValue(obj.(*types.Func))
						if fn == nil {
							return e, fmt.Errorf("no ssa function for %s", fd.Name.Name)
						}
						e.Replace[target] = fn
					}
				}
			}
		}
	}
	e.InitPkgs = cfg.Init
	e.MaxSteps = 50_000_000
	e.Unwind = 64
	e.MaxConcretize = 300
	registerIntrinsics(e)
	registerSQL(e)
	registerJSON(e)
	registerRace(e)
	return e, nil
}

// Harnesses returns harness functions (name prefix Harness_<prop>_) sorted by name.
func (e *Engine) Harnesses(prop string) []*ssa.Function {
	var out []*ssa.Function
	for _, sp := range e.SSA {
		for name, m := range sp.Members {
			if fn, ok := m.(*ssa.Function); ok && strings.HasPrefix(name, "Harness_"+prop+"_") {
				out = append(out, fn)
			}
		}
	}
	sort.Slice(out, func(i, j int) bool { return out[i].Name() < out[j].Name() })
	return out
}

func (e *Engine) FuncByName(pkg, name string) *ssa.Function {
	sp := e.SSA[pkg]
	if sp == nil {
		return nil
	}
	return sp.Func(name)
}

// ---------- globals ----------

type initSnapshot struct{}

// known messages of opaque sentinel errors from packages that are not executed from source.
var sentinelText = map[string]string{
	"database/sql.ErrNoRows": "sql: no rows in result set",
	"io.EOF":                 "EOF",
	"io.ErrUnexpectedEOF":    "unexpected EOF",
	"io.ErrClosedPipe":       "io: read/write on closed pipe",
	"io.ErrShortWrite":       "short write",
	"os.ErrPermission":       "permission denied",
	"os.ErrNotExist":         "file does not exist",
	"os.ErrExist":            "file already exists",
	"os.ErrInvalid":          "invalid argument",
	"io/fs.ErrPermission":    "permission denied",
	"io/fs.ErrNotExist":      "file does not exist",
	"io/fs.ErrExist":         "file already exists",
	"io/fs.ErrInvalid":       "invalid argument",
}

// aliases: os.ErrX are the same objects as fs.ErrX
var sentinelAlias = map[string]string{
	"os.ErrPermission": "io/fs.ErrPermission",
	"os.ErrNotExist":   "io/fs.ErrNotExist",
	"os.ErrExist":      "io/fs.ErrExist",
	"os.ErrInvalid":    "io/fs.ErrInvalid",
	"os.ErrClosed":     "io/fs.ErrClosed",
}

func (e *Engine) initGlobals(p *Path) {
	p.lenient = true
	for _, path := range e.InitPkgs {
		sp := e.SSA[path]
		if sp == nil {
			continue
		}
		initFn := sp.Func("init")
		if initFn == nil {
			continue
		}
		p.runInit(initFn)
	}
	p.lenient = false
	p.steps = 0
}

func (p *Path) runInit(fn *ssa.Function) {
	defer func() {
		if r := recover(); r != nil {
			if ap, ok := r.(*abortPath); ok {
				panic(&abortPath{Kind: "unsupported", Msg: "package init " + fn.Pkg.Pkg.Path() + ": " + ap.Msg})
			}
			if gp, ok := r.(*goPanic); ok {
				panic(&abortPath{Kind: "unsupported", Msg: "package init " + fn.Pkg.Pkg.Path() + " panicked: " + gp.Msg})
			}
			panic(r)
		}
	}()
	p.CallFn(fn, nil, nil)
}

// globalInit gives the initial value of a global that has not been touched yet.
func (e *Engine) globalInit(p *Path, g *ssa.Global, et types.Type) Value {
	name := g.Pkg.Pkg.Path() + "." + g.Name()
	if strings.HasPrefix(g.Name(), "init$guard") {
		// packages executed from source run their init explicitly; everything else is "already initialised"
		for _, ip := range e.InitPkgs {
			if ip == g.Pkg.Pkg.Path() {
				return FalseT
			}
		}
		return TrueT
	}
	if al, ok := sentinelAlias[name]; ok {
		name = al
		parts := strings.Split(al, ".")
		pkgPath, gname := strings.Join(parts[:len(parts)-1], "."), parts[len(parts)-1]
		for _, sp := range e.Prog.AllPackages() {
			if sp.Pkg.Path() == pkgPath {
				if tg, ok := sp.Members[gname].(*ssa.Global); ok && tg != g {
					return p.global(tg).Val
				}
			}
		}
	}
	// sentinel errors of packages not executed from source
	if types.IsInterface(et) && isErrorIface(et) {
		if _, executed := e.SSA[g.Pkg.Pkg.Path()]; !executed || !e.isInit(g.Pkg.Pkg.Path()) {
			msg, ok := sentinelText[name]
			if !ok {
				msg = name
			}
			return e.newErrorValue(p, msg)
		}
	}
	return e.zero(et)
}

func (e *Engine) isInit(path string) bool {
	for _, ip := range e.InitPkgs {
		if ip == path {
			return true
		}
	}
	return false
}

func isErrorIface(t types.Type) bool {
	it, ok := t.Underlying().(*types.Interface)
	if !ok {
		return false
	}
	return it.NumMethods() == 1 && it.Method(0).Name() == "Error"
}

// newErrorValue builds an error whose dynamic type is the model package's ErrorString.
func (e *Engine) newErrorValue(p *Path, msg string) Value {
	mp := e.SSA[ModelPkg]
	if mp == nil {
		p.unsupported("model package not loaded")
	}
	tn := mp.Pkg.Scope().Lookup("ErrorString")
	if tn == nil {
		p.unsupported("verifmodel.ErrorString missing")
	}
	st := tn.Type()
	o := p.newObj(st, "err:"+msg)
	o.Val.(*StructVal).F[0] = StrC(msg)
	return &IfaceVal{T: types.NewPointer(st), V: &Pointer{Obj: o}}
}

// Cleanup removes the scratch copy.
func (e *Engine) Cleanup() {
	if e != nil && e.Scratch != "" {
		os.RemoveAll(e.Scratch)
	}
}
