package replay

import (
	"os"
	"testing"
	"time"

	"github.com/pojntfx/stfs/pkg/config"
	stfs "github.com/pojntfx/stfs/pkg/fs"
)

// fixed: C02-content-write-resets-attributes — flushing a handle wrote the entry with the attributes captured when
// the handle was opened and without owner: a write reset uid/gid to 0 and the access time to zero, and a Chmod, Chown
// or Chtimes issued while the handle was open was undone by its Close.
func TestFinding_C02_ContentWriteKeepsAttributes(t *testing.T) {
	e := newFS(t, "", false, config.PipeConfig{})
	e.init(t)
	owner := func(name string) (uint32, uint32) {
		t.Helper()
		st, err := e.stfs.Stat(name)
		if err != nil {
			t.Fatal(err)
		}
		s := st.Sys().(*stfs.Stat)
		return s.Uid, s.Gid
	}
	// the owner set earlier survives a later content write
	writeFile(t, e.stfs, "/f", "pq")
	if err := e.stfs.Chown("/f", 7, 8); err != nil {
		t.Fatal(err)
	}
	h, err := e.stfs.OpenFile("/f", os.O_RDWR, 0)
	if err != nil {
		t.Fatal(err)
	}
	h.Write([]byte("X"))
	if err := h.Close(); err != nil {
		t.Fatal(err)
	}
	if u, g := owner("/f"); u != 7 || g != 8 {
		t.Errorf("owner of /f after Chown(7,8) and a later write: %d:%d", u, g)
	}
	// attribute changes made while a write handle is open survive its Close
	writeFile(t, e.stfs, "/g", "pq")
	h, err = e.stfs.OpenFile("/g", os.O_RDWR, 0)
	if err != nil {
		t.Fatal(err)
	}
	h.Write([]byte("X"))
	if err := e.stfs.Chmod("/g", 0o600); err != nil {
		t.Fatal(err)
	}
	if err := e.stfs.Chown("/g", 3, 4); err != nil {
		t.Fatal(err)
	}
	if err := e.stfs.Chtimes("/g", time.Unix(1000, 0), time.Unix(2000, 0)); err != nil {
		t.Fatal(err)
	}
	if err := h.Close(); err != nil {
		t.Fatal(err)
	}
	st, err := e.stfs.Stat("/g")
	if err != nil {
		t.Fatal(err)
	}
	if st.Mode().Perm() != 0o600 {
		t.Errorf("mode of /g after Chmod(0600) while open, then Close: %v", st.Mode())
	}
	if u, g := owner("/g"); u != 3 || g != 4 {
		t.Errorf("owner of /g after Chown(3,4) while open, then Close: %d:%d", u, g)
	}
	if st.ModTime().Unix() != 2000 {
		t.Errorf("mtime of /g after Chtimes while open, then Close: %v", st.ModTime().Unix())
	}
	if c, _ := readFile(t, e.stfs, "/g"); c != "Xq" {
		t.Errorf("content of /g: %q", c)
	}
}
