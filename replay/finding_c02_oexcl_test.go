package replay

import (
	"os"
	"testing"

	"github.com/pojntfx/stfs/pkg/config"
)

// C02: O_CREATE|O_EXCL creates a missing file and fails with "exists" on an existing one.
func TestFinding_C02_OCreateOExcl(t *testing.T) {
	e := newFS(t, "", false, config.PipeConfig{})
	e.init(t)
	f := e.stfs
	h, err := f.OpenFile("/new", os.O_CREATE|os.O_EXCL|os.O_RDWR, 0o644)
	if err != nil {
		t.Fatalf("O_CREATE|O_EXCL on a missing file: %v", err)
	}
	h.Close()
	if _, err := f.Stat("/new"); err != nil {
		t.Errorf("file was not created: %v", err)
	}
	if _, err := f.OpenFile("/new", os.O_CREATE|os.O_EXCL|os.O_RDWR, 0o644); err != os.ErrExist {
		t.Errorf("O_CREATE|O_EXCL on an existing file: got %v, want os.ErrExist", err)
	}
}
