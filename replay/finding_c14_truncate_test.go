package replay

import (
	"os"
	"testing"

	"github.com/pojntfx/stfs/pkg/config"
)

// C14: growing a file with Truncate keeps its content and pads with zeros.
func TestFinding_C14_TruncateGrowKeepsContent(t *testing.T) {
	e := newFS(t, "", false, config.PipeConfig{})
	e.init(t)
	f := e.stfs
	writeFile(t, f, "/f", "abc")
	h, err := f.OpenFile("/f", os.O_RDWR, 0)
	if err != nil {
		t.Fatal(err)
	}
	if err := h.Truncate(5); err != nil {
		t.Fatal(err)
	}
	if err := h.Close(); err != nil {
		t.Fatal(err)
	}
	c, err := readFile(t, f, "/f")
	if err != nil || c != "abc\x00\x00" {
		t.Errorf("content after Truncate(5) = %q, %v; want \"abc\\x00\\x00\"", c, err)
	}
}
