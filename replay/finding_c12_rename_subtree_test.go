package replay

import (
	"testing"

	"github.com/pojntfx/stfs/pkg/config"
)

// C12: renaming a directory into its own subtree must be refused and must change nothing.
func TestFinding_C12_RenameIntoOwnSubtree(t *testing.T) {
	e := newFS(t, "", false, config.PipeConfig{})
	e.init(t)
	f := e.stfs
	if err := f.Mkdir("/d", 0o755); err != nil {
		t.Fatal(err)
	}
	writeFile(t, f, "/d/x", "x")
	before := tree(t, f)
	err := f.Rename("/d", "/d/sub")
	if err == nil {
		t.Errorf("Rename(/d, /d/sub) was accepted")
	}
	after := tree(t, f)
	if len(after) != len(before) || !contains(after, "/d/x") {
		t.Errorf("tree changed: before=%v after=%v", before, after)
	}
}
