package replay

import (
	"os"
	"testing"

	"github.com/pojntfx/stfs/pkg/config"
)

// TestKnown_*: open findings (not repaired): these tests document the behaviour and PASS while the defect is
// present; they call t.Skip when the behaviour is gone. TestFinding_*: repaired, fail when the defect returns.

func fileSize(t *testing.T, p string) int64 {
	st, err := os.Stat(p)
	if err != nil {
		t.Fatal(err)
	}
	return st.Size()
}

// fixed: C16-torn-data-makes-initialize-overwrite
func TestFinding_C16_TornDataDoesNotMakeInitializeStartOver(t *testing.T) {
	dir := t.TempDir()
	e := newFS(t, dir, false, config.PipeConfig{})
	e.init(t)
	if err := e.stfs.Mkdir("/d", 0o755); err != nil {
		t.Fatal(err)
	}
	big := make([]byte, 700)
	writeFile(t, e.stfs, "/d/g", string(big))
	// cut inside the content of the last record (header 3 blocks + 700 bytes + padding + trailer at the end)
	if err := os.Truncate(e.drive, fileSize(t, e.drive)-1024-512-100); err != nil {
		t.Fatal(err)
	}
	os.Remove(e.index)
	before := fileSize(t, e.drive)
	e2 := newFS(t, dir, false, config.PipeConfig{})
	_, err := e2.stfs.Initialize("/", os.ModePerm)
	after := fileSize(t, e.drive)
	if after != before {
		t.Errorf("Initialize over a tape with a root and a torn last record appended %d bytes (Initialize = %v)", after-before, err)
	}
	if err == nil {
		if tr := tree(t, e2.stfs); !contains(tr, "/d") {
			t.Errorf("Initialize succeeded but /d is gone: %v", tr)
		}
	}
}

// fixed: C16-empty-drive-file-cannot-be-initialized
func TestFinding_C16_EmptyDriveFileGetsARoot(t *testing.T) {
	dir := t.TempDir()
	e := newFS(t, dir, false, config.PipeConfig{})
	if err := os.WriteFile(e.drive, nil, 0o600); err != nil {
		t.Fatal(err)
	}
	if _, err := e.stfs.Initialize("/", os.ModePerm); err != nil {
		t.Fatalf("Initialize over an empty drive file: %v", err)
	}
	if err := e.stfs.Mkdir("/d", 0o755); err != nil {
		t.Fatal(err)
	}
	if _, err := e.stfs.Stat("/d"); err != nil {
		t.Fatal(err)
	}
}

// C16-stale-index-is-trusted
func TestKnown_C16_StaleIndexIsTrusted(t *testing.T) {
	dir := t.TempDir()
	e := newFS(t, dir, false, config.PipeConfig{})
	e.init(t)
	writeFile(t, e.stfs, "/a", "1")
	// keep a copy of the index as it is now, then write more
	old, err := os.ReadFile(e.index)
	if err != nil {
		t.Fatal(err)
	}
	writeFile(t, e.stfs, "/b", "2")
	if err := os.WriteFile(e.index, old, 0o600); err != nil {
		t.Fatal(err)
	}
	os.Remove(e.index + "-wal")
	os.Remove(e.index + "-shm")
	e2 := newFS(t, dir, false, config.PipeConfig{})
	if _, err := e2.stfs.Initialize("/", os.ModePerm); err != nil {
		t.Fatal(err)
	}
	if contains(tree(t, e2.stfs), "/b") {
		t.Skip("defect no longer present: the stale index was brought up to date")
	}
	t.Logf("tree with stale index: %v (tape also holds /b)", tree(t, e2.stfs))
}

// C16-unaligned-tail-append-off-grid
func TestKnown_C16_UnalignedTail(t *testing.T) {
	dir := t.TempDir()
	e := newFS(t, dir, false, config.PipeConfig{})
	e.init(t)
	writeFile(t, e.stfs, "/f", "hello")
	if err := os.Truncate(e.drive, fileSize(t, e.drive)-100); err != nil {
		t.Fatal(err)
	}
	e2 := newFS(t, dir, false, config.PipeConfig{})
	if _, err := e2.stfs.Initialize("/", os.ModePerm); err != nil {
		t.Fatal(err)
	}
	err := e2.stfs.Mkdir("/n", 0o755)
	_, serr := e2.stfs.Stat("/n")
	if err == nil && serr == nil {
		t.Skip("defect no longer present")
	}
	t.Logf("Mkdir(/n) after unaligned cut = %v, Stat = %v, drive size %% 512 = %d", err, serr, fileSize(t, e.drive)%512)
}
