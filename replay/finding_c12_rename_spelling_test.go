package replay

import (
	"testing"

	"github.com/pojntfx/stfs/pkg/config"
)

// C12-rename-guard-bypassed-by-relative-spelling: the own-subtree guard and the rename-onto-itself check of STFS.Rename
// compare the cleaned names textually, so an equivalent relative spelling ("a/c", "./a/c") of the destination slips
// through: Rename("/a", "a/c") is accepted and orphans the subtree; Rename("/a/f", "a/f") deletes the file.
func TestFinding_C12_RenameGuardHoldsForEverySpelling(t *testing.T) {
	for _, dst := range []string{"a/c", "./a/c", "/a/c"} {
		e := newFS(t, "", false, config.PipeConfig{})
		e.init(t)
		f := e.stfs
		if err := f.Mkdir("/a", 0o755); err != nil {
			t.Fatal(err)
		}
		writeFile(t, f, "/a/f", "x")
		if err := f.Rename("/a", dst); err == nil {
			t.Errorf("Rename(\"/a\", %q) into its own subtree was accepted; tree now %v", dst, tree(t, f))
		}
		if _, err := f.Stat("/a/f"); err != nil {
			t.Errorf("after Rename(\"/a\", %q): Stat(/a/f) = %v", dst, err)
		}
	}
	for _, dst := range []string{"a/f", "./a/f"} {
		e := newFS(t, "", false, config.PipeConfig{})
		e.init(t)
		f := e.stfs
		if err := f.Mkdir("/a", 0o755); err != nil {
			t.Fatal(err)
		}
		writeFile(t, f, "/a/f", "x")
		if err := f.Rename("/a/f", dst); err != nil {
			t.Errorf("Rename(\"/a/f\", %q) onto itself = %v, want nil", dst, err)
		}
		if c, err := readFile(t, f, "/a/f"); err != nil || c != "x" {
			t.Errorf("after Rename(\"/a/f\", %q) onto itself: content %q, %v", dst, c, err)
		}
	}
}
