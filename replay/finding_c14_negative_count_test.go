package replay

import (
	"os"
	"testing"

	"github.com/pojntfx/stfs/pkg/config"
	"github.com/spf13/afero"
)

// C14: a refused Read/Write must report the count a byte-array file reports (0), not -1. A negative count breaks
// io.Reader's contract: afero.ReadFile (bytes.Buffer.ReadFrom) and io.ReadAll panic on it.
func TestFinding_C14_RefusedCallsReportCountZero(t *testing.T) {
	e := newFS(t, "", false, config.PipeConfig{})
	e.init(t)
	f := e.stfs
	writeFile(t, f, "/f", "abc")
	if err := f.Mkdir("/d", 0o755); err != nil {
		t.Fatal(err)
	}

	wo, err := f.OpenFile("/f", os.O_WRONLY, 0)
	if err != nil {
		t.Fatal(err)
	}
	if n, err := wo.Read(make([]byte, 2)); err == nil || n != 0 {
		t.Errorf("Read on a write-only handle: n=%d err=%v, want 0 and an error", n, err)
	}
	if n, err := wo.ReadAt(make([]byte, 2), 0); err == nil || n != 0 {
		t.Errorf("ReadAt on a write-only handle: n=%d err=%v, want 0 and an error", n, err)
	}
	wo.Close()

	ro, err := f.OpenFile("/f", os.O_RDONLY, 0)
	if err != nil {
		t.Fatal(err)
	}
	if n, err := ro.Write([]byte("x")); err == nil || n != 0 {
		t.Errorf("Write on a read-only handle: n=%d err=%v, want 0 and an error", n, err)
	}
	if n, err := ro.WriteAt([]byte("x"), 0); err == nil || n != 0 {
		t.Errorf("WriteAt on a read-only handle: n=%d err=%v, want 0 and an error", n, err)
	}
	if n, err := ro.WriteString("x"); err == nil || n != 0 {
		t.Errorf("WriteString on a read-only handle: n=%d err=%v, want 0 and an error", n, err)
	}
	ro.Close()

	func() {
		defer func() {
			if r := recover(); r != nil {
				t.Errorf("afero.ReadFile on a directory panicked: %v", r)
			}
		}()
		if _, err := afero.ReadFile(f, "/d"); err == nil {
			t.Errorf("afero.ReadFile on a directory succeeded")
		}
	}()
}
