package replay

import (
	"io"
	"os"
	"testing"

	"github.com/pojntfx/stfs/pkg/config"
)

// fixed: C14-handle-unusable-after-sync: Sync handed the write buffer itself to the update operation, which closes what
// it is given; every later Write, Seek or Close on the handle failed with "file already closed".
func TestFinding_C14_HandleStaysUsableAfterSync(t *testing.T) {
	for _, newEnv := range []func(*testing.T) *env{
		func(t *testing.T) *env { return newFS(t, "", false, config.PipeConfig{}) },
		newFileCacheFS,
	} {
		e := newEnv(t)
		e.init(t)
		f := e.stfs
		h, err := f.OpenFile("/f", os.O_RDWR|os.O_CREATE, 0o644)
		if err != nil {
			t.Fatal(err)
		}
		if _, err := h.Write([]byte("ab")); err != nil {
			t.Fatal(err)
		}
		if err := h.Sync(); err != nil {
			t.Fatal(err)
		}
		if c, _ := readFile(t, f, "/f"); c != "ab" {
			t.Errorf("content after Sync: %q, want \"ab\"", c)
		}
		if off, err := h.Seek(0, io.SeekCurrent); err != nil || off != 2 {
			t.Errorf("offset after Sync = %d, %v; want 2", off, err)
		}
		if _, err := h.Write([]byte("cd")); err != nil {
			t.Errorf("Write after Sync: %v", err)
		}
		if err := h.Close(); err != nil {
			t.Errorf("Close after Sync: %v", err)
		}
		if c, _ := readFile(t, f, "/f"); c != "abcd" {
			t.Errorf("content after Close: %q, want \"abcd\"", c)
		}
	}
}
