package replay

import (
	"testing"

	"github.com/pojntfx/stfs/pkg/config"
)

// C02: rename onto an existing file replaces it; rename of a directory onto an empty directory replaces it.
func TestFinding_C02_RenameOntoExistingEntry(t *testing.T) {
	e := newFS(t, "", false, config.PipeConfig{})
	e.init(t)
	f := e.stfs
	writeFile(t, f, "/src", "source")
	writeFile(t, f, "/dst", "target")
	if err := f.Rename("/src", "/dst"); err != nil {
		t.Fatalf("Rename(/src, /dst): %v", err)
	}
	tr := tree(t, f)
	if len(tr) != 1 || tr[0] != "/dst" {
		t.Errorf("tree = %v, want [/dst]", tr)
	}
	if c, err := readFile(t, f, "/dst"); err != nil || c != "source" {
		t.Errorf("content of /dst = %q, %v; want the source's content", c, err)
	}
	if err := f.Mkdir("/d1", 0o755); err != nil {
		t.Fatal(err)
	}
	writeFile(t, f, "/d1/x", "x")
	if err := f.Mkdir("/d2", 0o755); err != nil {
		t.Fatal(err)
	}
	if err := f.Rename("/d1", "/d2"); err != nil {
		t.Fatalf("Rename(/d1, /d2): %v", err)
	}
	tr = tree(t, f)
	if !contains(tr, "/d2/x") || contains(tr, "/d1") {
		t.Errorf("tree = %v, want /d2/x and no /d1", tr)
	}
}
