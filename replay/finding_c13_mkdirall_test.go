package replay

import (
	"testing"

	"github.com/pojntfx/stfs/pkg/config"
)

// C13: MkdirAll("/x/y/z") must create the whole chain so that the new directory is reachable from the root.
func TestFinding_C13_MkdirAllCreatesOnlyLeaf(t *testing.T) {
	e := newFS(t, "", false, config.PipeConfig{})
	e.init(t)
	f := e.stfs
	if err := f.MkdirAll("/x/y/z", 0o755); err != nil {
		t.Fatal(err)
	}
	tr := tree(t, f)
	for _, want := range []string{"/x", "/x/y", "/x/y/z"} {
		if !contains(tr, want) {
			t.Errorf("%s not reachable from the root after MkdirAll(/x/y/z); tree=%v", want, tr)
		}
	}
	// idempotent, and a file in the way is an error
	if err := f.MkdirAll("/x/y/z", 0o755); err != nil {
		t.Errorf("second MkdirAll: %v", err)
	}
	writeFile(t, f, "/x/file", "")
	if err := f.MkdirAll("/x/file/sub", 0o755); err == nil {
		t.Errorf("MkdirAll through a regular file was accepted")
	}
}
