package replay

import (
	"io"
	"os"
	"testing"

	"github.com/pojntfx/stfs/pkg/config"
)

// fixed: C14-readat-moves-the-cursor — a positioned read left the handle's offset behind the bytes it had read, so
// the next Read, Seek(…, Current) or Write continued from there instead of from where the caller was.
func TestFinding_C14_ReadAtKeepsOffset(t *testing.T) {
	e := newFS(t, "", false, config.PipeConfig{})
	e.init(t)
	writeFile(t, e.stfs, "/f", "pqrs")
	// read-only handle, fresh: the offset is 0 before and after
	h, err := e.stfs.Open("/f")
	if err != nil {
		t.Fatal(err)
	}
	buf := make([]byte, 2)
	if n, err := h.ReadAt(buf, 1); n != 2 || err != nil || string(buf) != "qr" {
		t.Fatalf("ReadAt(2, 1) on \"pqrs\" = %d, %v, %q", n, err, buf)
	}
	if off, err := h.Seek(0, io.SeekCurrent); err != nil || off != 0 {
		t.Errorf("offset after ReadAt on a fresh handle = %d, %v; want 0", off, err)
	}
	one := make([]byte, 1)
	if n, _ := h.Read(one); n != 1 || one[0] != 'p' {
		t.Errorf("Read after ReadAt = %d, %q; want \"p\"", n, one)
	}
	// ... and with the offset at 1
	if n, err := h.ReadAt(buf, 2); n != 2 || err != nil || string(buf) != "rs" {
		t.Fatalf("ReadAt(2, 2) = %d, %v, %q", n, err, buf)
	}
	if n, _ := h.Read(one); n != 1 || one[0] != 'q' {
		t.Errorf("second Read after ReadAt = %d, %q; want \"q\"", n, one)
	}
	h.Close()
	// read-write handle in write mode
	h, err = e.stfs.OpenFile("/f", os.O_RDWR, 0)
	if err != nil {
		t.Fatal(err)
	}
	if _, err := h.Write([]byte("X")); err != nil {
		t.Fatal(err)
	}
	if n, err := h.ReadAt(buf, 2); n != 2 || err != nil || string(buf) != "rs" {
		t.Fatalf("ReadAt(2, 2) in write mode = %d, %v, %q", n, err, buf)
	}
	if _, err := h.Write([]byte("Y")); err != nil {
		t.Fatal(err)
	}
	h.Close()
	if c, _ := readFile(t, e.stfs, "/f"); c != "XYrs" {
		t.Errorf("content after Write(X), ReadAt(2,2), Write(Y) on \"pqrs\": %q, want \"XYrs\"", c)
	}
}
