package replay

import (
	"testing"

	"github.com/pojntfx/stfs/pkg/config"
)

// C02: renaming a file onto itself must leave it alone (it used to be deleted).
func TestFinding_C02_RenameOntoItself(t *testing.T) {
	e := newFS(t, "", false, config.PipeConfig{})
	e.init(t)
	f := e.stfs
	writeFile(t, f, "/f", "data")
	if err := f.Rename("/f", "/f"); err != nil {
		t.Errorf("Rename(/f, /f): %v", err)
	}
	if c, err := readFile(t, f, "/f"); err != nil || c != "data" {
		t.Errorf("after Rename(/f, /f): content=%q err=%v", c, err)
	}
	if err := f.Rename("/missing", "/missing"); err == nil {
		t.Errorf("Rename of a missing entry onto itself succeeded")
	}
}
