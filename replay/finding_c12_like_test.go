package replay

import (
	"testing"

	"github.com/pojntfx/stfs/pkg/config"
)

// C12: RemoveAll("/a_") must not touch "/ab/x" (SQL LIKE wildcard), RemoveAll("/a") must not touch "/A/y" (case folding).
func TestFinding_C12_LikeWildcardAndCase(t *testing.T) {
	e := newFS(t, "", false, config.PipeConfig{})
	e.init(t)
	f := e.stfs
	for _, d := range []string{"/a_", "/ab", "/a", "/A"} {
		if err := f.Mkdir(d, 0o755); err != nil {
			t.Fatal(d, err)
		}
	}
	writeFile(t, f, "/ab/x", "x")
	writeFile(t, f, "/A/y", "y")
	if err := f.RemoveAll("/a_"); err != nil {
		t.Fatal(err)
	}
	if tr := tree(t, f); !contains(tr, "/ab/x") {
		t.Errorf("RemoveAll(/a_) removed /ab/x; tree=%v", tr)
	}
	if err := f.RemoveAll("/a"); err != nil {
		t.Fatal(err)
	}
	if tr := tree(t, f); !contains(tr, "/A/y") {
		t.Errorf("RemoveAll(/a) removed /A/y; tree=%v", tr)
	}
}
