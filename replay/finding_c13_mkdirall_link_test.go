package replay

import (
	"testing"

	"github.com/pojntfx/stfs/pkg/config"
)

// fixed: C13-mkdirall-below-a-link: MkdirAll took a symbolic link to a directory for an existing directory and
// created the rest of the path below the link's own path, where no listing from the root reaches it (Mkdir refuses).
func TestFinding_C13_MkdirAllBelowALinkIsRefused(t *testing.T) {
	e := newFS(t, "", false, config.PipeConfig{})
	e.init(t)
	f := e.stfs
	if err := f.Mkdir("/d", 0o755); err != nil {
		t.Fatal(err)
	}
	if err := f.SymlinkIfPossible("/d", "/l"); err != nil {
		t.Fatal(err)
	}
	err := f.MkdirAll("/l/t/u", 0o755)
	if _, serr := f.Stat("/l/t"); serr == nil {
		t.Errorf("MkdirAll(\"/l/t/u\") = %v left an entry /l/t that no listing reaches: tree %v", err, tree(t, f))
	}
	if err == nil {
		t.Errorf("MkdirAll below a link succeeded (Mkdir(\"/l/m\") = %v)", f.Mkdir("/l/m", 0o755))
	}
}
