package replay

import (
	"io"
	"os"
	"testing"

	"github.com/pojntfx/stfs/pkg/config"
)

// Open C14 findings: these tests document the behaviour, PASS while the defect is present and Skip when it is gone.

// C14-write-cache-overwrite-truncates-tail
func TestKnown_C14_OverwriteTruncatesTail(t *testing.T) {
	e := newFS(t, "", false, config.PipeConfig{})
	e.init(t)
	writeFile(t, e.stfs, "/f", "pqr")
	h, err := e.stfs.OpenFile("/f", os.O_RDWR, 0)
	if err != nil {
		t.Fatal(err)
	}
	if _, err := h.Write([]byte("X")); err != nil {
		t.Fatal(err)
	}
	h.Close()
	c, _ := readFile(t, e.stfs, "/f")
	if c == "Xqr" {
		t.Skip("defect no longer present")
	}
	t.Logf("content after overwriting the first byte of \"pqr\": %q", c)
}

// C14-entering-write-mode-resets-cursor
func TestKnown_C14_WriteAfterReadRewinds(t *testing.T) {
	e := newFS(t, "", false, config.PipeConfig{})
	e.init(t)
	writeFile(t, e.stfs, "/f", "pqr")
	h, err := e.stfs.OpenFile("/f", os.O_RDWR, 0)
	if err != nil {
		t.Fatal(err)
	}
	buf := make([]byte, 3)
	if _, err := io.ReadFull(h, buf); err != nil {
		t.Fatal(err)
	}
	if _, err := h.Write([]byte("X")); err != nil {
		t.Fatal(err)
	}
	h.Close()
	c, _ := readFile(t, e.stfs, "/f")
	if c == "pqrX" {
		t.Skip("defect no longer present")
	}
	t.Logf("content after Read(3) then Write(\"X\") on \"pqr\": %q (want \"pqrX\")", c)
}

// C14-seek-beyond-eof-loses-cursor
func TestKnown_C14_SeekBeyondEOFLosesCursor(t *testing.T) {
	e := newFS(t, "", false, config.PipeConfig{})
	e.init(t)
	writeFile(t, e.stfs, "/f", "pq")
	h, err := e.stfs.Open("/f")
	if err != nil {
		t.Fatal(err)
	}
	defer h.Close()
	h.Seek(5, io.SeekStart)
	off, err := h.Seek(0, io.SeekCurrent)
	if err == nil && off == 5 {
		t.Skip("defect no longer present")
	}
	t.Logf("Seek(0, Current) after Seek(5, Start) on 2 bytes = %d, %v (want 5)", off, err)
}
