package replay

import (
	"io"
	"os"
	"testing"

	"github.com/pojntfx/stfs/pkg/cache"
	"github.com/pojntfx/stfs/pkg/config"
	"github.com/pojntfx/stfs/pkg/fs"
	"path/filepath"
)

// fixed: C14-write-cache-overwrite-truncates-tail: the memory write cache dropped the tail on an overwrite and did not
// zero-fill a gap
func TestFinding_C14_MemoryCacheOverwritesInPlace(t *testing.T) {
	e := newFS(t, "", false, config.PipeConfig{})
	e.init(t)
	writeFile(t, e.stfs, "/f", "pqr")
	h, err := e.stfs.OpenFile("/f", os.O_RDWR, 0)
	if err != nil {
		t.Fatal(err)
	}
	if _, err := h.Write([]byte("X")); err != nil {
		t.Fatal(err)
	}
	h.Close()
	if c, _ := readFile(t, e.stfs, "/f"); c != "Xqr" {
		t.Errorf("content after overwriting the first byte of \"pqr\": %q, want \"Xqr\"", c)
	}
	h, err = e.stfs.OpenFile("/f", os.O_RDWR, 0)
	if err != nil {
		t.Fatal(err)
	}
	if _, err := h.WriteAt([]byte("Z"), 5); err != nil {
		t.Fatal(err)
	}
	h.Close()
	if c, _ := readFile(t, e.stfs, "/f"); c != "Xqr\x00\x00Z" {
		t.Errorf("content after WriteAt(\"Z\", 5) on \"Xqr\": %q, want \"Xqr\\x00\\x00Z\"", c)
	}
}

// newFileCacheFS is newFS with the file-backed write cache (an *os.File, which overwrites in place), so that the
// handle's own cursor logic is observable independently of the open finding about the memory write cache.
func newFileCacheFS(t *testing.T) *env {
	e := newFS(t, "", false, config.PipeConfig{})
	dir := e.dir
	md := config.MetadataConfig{Metadata: e.p}
	e.stfs = fs.NewSTFS(e.readOps, e.writeOps, md, config.CompressionLevelFastestKey,
		func() (cache.WriteCache, func() error, error) {
			return cache.NewCacheWrite(filepath.Join(dir, "wc"), config.WriteCacheTypeFile)
		},
		false, false, func(*config.Header) {}, stfsLogger{})
	return e
}

// fixed: C14-entering-write-mode-resets-cursor (bcfa786)
func TestFinding_C14_WriteAfterReadKeepsOffset(t *testing.T) {
	e := newFileCacheFS(t)
	e.init(t)
	writeFile(t, e.stfs, "/f", "pqr")
	h, err := e.stfs.OpenFile("/f", os.O_RDWR, 0)
	if err != nil {
		t.Fatal(err)
	}
	buf := make([]byte, 1)
	if _, err := io.ReadFull(h, buf); err != nil {
		t.Fatal(err)
	}
	if _, err := h.Write([]byte("X")); err != nil {
		t.Fatal(err)
	}
	h.Close()
	if c, _ := readFile(t, e.stfs, "/f"); c != "pXr" {
		t.Errorf("content after Read(1) then Write(\"X\") on \"pqr\": %q, want \"pXr\"", c)
	}
}

// fixed: C14-seek-beyond-eof-loses-cursor (c69795c)
func TestFinding_C14_SeekBeyondEOFKeepsRequestedOffset(t *testing.T) {
	e := newFS(t, "", false, config.PipeConfig{})
	e.init(t)
	writeFile(t, e.stfs, "/f", "pq")
	h, err := e.stfs.Open("/f")
	if err != nil {
		t.Fatal(err)
	}
	defer h.Close()
	h.Seek(5, io.SeekStart)
	off, err := h.Seek(0, io.SeekCurrent)
	if err != nil || off != 5 {
		t.Errorf("Seek(0, Current) after Seek(5, Start) on 2 bytes = %d, %v; want 5", off, err)
	}
	off, err = h.Seek(-1, io.SeekCurrent)
	if err != nil || off != 4 {
		t.Errorf("Seek(-1, Current) from 5 = %d, %v; want 4", off, err)
	}
}

// fixed: C14-append-handle-writes-at-cursor (93c9e52)
func TestFinding_C14_AppendHandleWritesAtEnd(t *testing.T) {
	e := newFileCacheFS(t)
	e.init(t)
	writeFile(t, e.stfs, "/f", "pqr")
	h, err := e.stfs.OpenFile("/f", os.O_RDWR|os.O_APPEND, 0)
	if err != nil {
		t.Fatal(err)
	}
	if _, err := h.Write([]byte("X")); err != nil {
		t.Fatal(err)
	}
	if _, err := h.Seek(0, io.SeekStart); err != nil {
		t.Fatal(err)
	}
	if _, err := h.Write([]byte("Y")); err != nil {
		t.Fatal(err)
	}
	h.Close()
	if c, _ := readFile(t, e.stfs, "/f"); c != "pqrXY" {
		t.Errorf("content after append, seek to 0, append on \"pqr\": %q, want \"pqrXY\"", c)
	}
}

// fixed: C14-writeat-moves-cursor (dc796db)
func TestFinding_C14_WriteAtKeepsOffset(t *testing.T) {
	e := newFileCacheFS(t)
	e.init(t)
	writeFile(t, e.stfs, "/f", "pqrs")
	h, err := e.stfs.OpenFile("/f", os.O_RDWR, 0)
	if err != nil {
		t.Fatal(err)
	}
	if _, err := h.WriteAt([]byte("Z"), 2); err != nil {
		t.Fatal(err)
	}
	if off, err := h.Seek(0, io.SeekCurrent); err != nil || off != 0 {
		t.Errorf("offset after WriteAt(_, 2) on a fresh handle = %d, %v; want 0", off, err)
	}
	if _, err := h.Write([]byte("A")); err != nil {
		t.Fatal(err)
	}
	h.Close()
	if c, _ := readFile(t, e.stfs, "/f"); c != "AqZs" {
		t.Errorf("content after WriteAt(\"Z\",2), Write(\"A\") on \"pqrs\": %q, want \"AqZs\"", c)
	}
}

// fixed: C14-otrunc-takes-effect-only-on-write (d0cf1c6)
func TestFinding_C14_OTruncHandleReadsEmpty(t *testing.T) {
	e := newFS(t, "", false, config.PipeConfig{})
	e.init(t)
	writeFile(t, e.stfs, "/f", "hello")
	h, err := e.stfs.OpenFile("/f", os.O_RDWR|os.O_TRUNC, 0)
	if err != nil {
		t.Fatal(err)
	}
	b, _ := io.ReadAll(h)
	if len(b) != 0 {
		t.Errorf("read %q through a handle opened with O_TRUNC, want nothing", b)
	}
	h.Close()
	if c, _ := readFile(t, e.stfs, "/f"); c != "" {
		t.Errorf("content after OpenFile(O_TRUNC)+Close: %q, want empty", c)
	}
}
