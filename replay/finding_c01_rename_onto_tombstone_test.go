package replay

import (
	"context"
	"os"
	"testing"

	"github.com/pojntfx/stfs/pkg/config"
)

// C01/C07: renaming onto a name that was deleted earlier must work, and the tape must still rebuild.
func TestFinding_C01_RenameOntoTombstonedName(t *testing.T) {
	dir := t.TempDir()
	e := newFS(t, dir, false, config.PipeConfig{})
	e.init(t)
	f := e.stfs
	writeFile(t, f, "/old", "1")
	if err := f.Remove("/old"); err != nil {
		t.Fatal(err)
	}
	writeFile(t, f, "/new", "2")
	if err := f.Rename("/new", "/old"); err != nil {
		t.Errorf("Rename onto a previously deleted name: %v", err)
	}
	tr := tree(t, f)
	if len(tr) != 1 || tr[0] != "/old" {
		t.Errorf("tree after rename = %v, want [/old]", tr)
	}
	// throw the index away and rebuild it from the tape alone
	if err := os.Remove(e.index); err != nil {
		t.Fatal(err)
	}
	e2 := newFS(t, dir, false, config.PipeConfig{})
	if _, err := e2.stfs.Initialize("/", os.ModePerm); err != nil {
		t.Fatalf("rebuild: %v", err)
	}
	tr2 := tree(t, e2.stfs)
	if len(tr2) != 1 || tr2[0] != "/old" {
		t.Errorf("tree after rebuild = %v, want [/old]", tr2)
	}
	if c, err := readFile(t, e2.stfs, "/old"); err != nil || c != "2" {
		t.Errorf("content after rebuild = %q, %v", c, err)
	}
	// replaying the tape into the populated index again (recovery index without overwrite) converges
	hs, _ := e2.p.GetHeaders(context.Background())
	if len(hs) != 2 {
		t.Errorf("live rows = %d, want 2", len(hs))
	}
}
