package replay

import (
	"os"
	"testing"

	"github.com/pojntfx/stfs/pkg/config"
)

// fixed: C13-late-close-brings-the-entry-back — closing (or syncing) a handle in write mode after its entry had been
// removed wrote an UPDATE record for it, which revived the tombstone: the file was back, below a directory that no
// longer existed after RemoveAll, or in place of a directory that had taken its name meanwhile.
func TestFinding_C13_LateCloseDoesNotBringTheEntryBack(t *testing.T) {
	for _, writeFirst := range []bool{true, false} {
		e := newFS(t, "", false, config.PipeConfig{})
		e.init(t)
		open := func(name string) interface {
			Write([]byte) (int, error)
			Close() error
		} {
			t.Helper()
			writeFile(t, e.stfs, name, "pq")
			h, err := e.stfs.OpenFile(name, os.O_RDWR, 0)
			if err != nil {
				t.Fatal(err)
			}
			if writeFirst {
				if _, err := h.Write([]byte("X")); err != nil {
					t.Fatal(err)
				}
			}
			return h
		}
		finish := func(h interface {
			Write([]byte) (int, error)
			Close() error
		}) {
			t.Helper()
			if !writeFirst {
				h.Write([]byte("X"))
			}
			if err := h.Close(); err != nil {
				t.Errorf("close after the entry went away: %v", err)
			}
		}
		// removed together with its directory
		if err := e.stfs.Mkdir("/d", 0o755); err != nil {
			t.Fatal(err)
		}
		h := open("/d/f")
		if err := e.stfs.RemoveAll("/d"); err != nil {
			t.Fatal(err)
		}
		finish(h)
		if _, err := e.stfs.Stat("/d/f"); err == nil {
			_, derr := e.stfs.Stat("/d")
			t.Errorf("writeFirst=%v: /d/f exists again after RemoveAll(/d) and a late Close (stat /d: %v)", writeFirst, derr)
		}
		// removed alone
		h = open("/g")
		if err := e.stfs.Remove("/g"); err != nil {
			t.Fatal(err)
		}
		finish(h)
		if _, err := e.stfs.Stat("/g"); err == nil {
			t.Errorf("writeFirst=%v: /g exists again after Remove and a late Close", writeFirst)
		}
		// removed and replaced by a directory
		h = open("/k")
		if err := e.stfs.Remove("/k"); err != nil {
			t.Fatal(err)
		}
		if err := e.stfs.Mkdir("/k", 0o755); err != nil {
			t.Fatal(err)
		}
		finish(h)
		if st, err := e.stfs.Stat("/k"); err != nil || !st.IsDir() {
			t.Errorf("writeFirst=%v: directory /k after a late Close of the file it replaced: %v, %v", writeFirst, st, err)
		}
	}
}
