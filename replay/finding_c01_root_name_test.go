package replay

import (
	"os"
	"testing"

	"github.com/pojntfx/stfs/pkg/config"
)

// fixed: C01-root-name-differs-after-rebuild — Stat("/").Name() was "/" on the instance that created the tape and
// "." on an instance opened over an index rebuilt from the same tape (the rebuilt index stores the root as "").
func TestFinding_C01_RootHasTheSameNameAfterARebuild(t *testing.T) {
	e := newFS(t, "", false, config.PipeConfig{})
	e.init(t)
	writeFile(t, e.stfs, "/f", "pq")
	live, err := e.stfs.Stat("/")
	if err != nil {
		t.Fatal(err)
	}
	if err := os.Remove(e.index); err != nil {
		t.Fatal(err)
	}
	e2 := newFS(t, e.dir, false, config.PipeConfig{})
	e2.init(t)
	rebuilt, err := e2.stfs.Stat("/")
	if err != nil {
		t.Fatal(err)
	}
	if live.Name() != rebuilt.Name() {
		t.Errorf("Stat(\"/\").Name(): %q on the running instance, %q after a rebuild", live.Name(), rebuilt.Name())
	}
	h, err := e2.stfs.Open("/")
	if err != nil {
		t.Fatal(err)
	}
	defer h.Close()
	if st, err := h.Stat(); err != nil || st.Name() != live.Name() {
		t.Errorf("Open(\"/\").Stat().Name() after a rebuild: %v, %v; want %q", st, err, live.Name())
	}
}
