package replay

import (
	"archive/tar"
	"os"
	"testing"

	"github.com/pojntfx/stfs/pkg/config"
)

func writeForeignTar(t *testing.T, path string, format tar.Format, names []string, dirs map[string]bool) {
	f, err := os.Create(path)
	if err != nil {
		t.Fatal(err)
	}
	tw := tar.NewWriter(f)
	for _, n := range names {
		h := &tar.Header{Name: n, Mode: 0o644, Format: format}
		if dirs[n] {
			h.Typeflag = tar.TypeDir
			h.Mode = 0o755
		} else {
			h.Typeflag = tar.TypeReg
			h.Size = 3
		}
		if err := tw.WriteHeader(h); err != nil {
			t.Fatal(err)
		}
		if !dirs[n] {
			tw.Write([]byte("abc"))
		}
	}
	tw.Close()
	f.Close()
}

// Native counterpart of Harness_C17_foreign_archive: what the symbolic run claims for the './' and the
// named-top-directory styles is replayed against real archive/tar, real SQLite and the real code.
func TestReplay_C17_ForeignArchive(t *testing.T) {
	for _, format := range []tar.Format{tar.FormatUSTAR, tar.FormatPAX, tar.FormatGNU} {
		dir := t.TempDir()
		e := newFS(t, dir, false, config.PipeConfig{})
		writeForeignTar(t, e.drive, format, []string{"./", "./d/", "./d/f", "./g"}, map[string]bool{"./": true, "./d/": true})
		root, err := e.stfs.Initialize("/", os.ModePerm)
		if err != nil {
			t.Fatalf("format %v: Initialize: %v", format, err)
		}
		if root != "" && root != "." && root != "./" && root != "/" {
			t.Errorf("format %v: root = %q", format, root)
		}
		tr := tree(t, e.stfs)
		if len(tr) != 3 || !contains(tr, "/d") || !contains(tr, "/d/f") || !contains(tr, "/g") {
			t.Errorf("format %v: tree = %v", format, tr)
		}
		for _, sp := range []string{"/d/f", "d/f", "./d/f"} {
			st, err := e.stfs.Stat(sp)
			if err != nil || st.Size() != 3 {
				t.Errorf("format %v: Stat(%q) = %v, %v", format, sp, st, err)
			}
		}
		if c, err := readFile(t, e.stfs, "/d/f"); err != nil || c != "abc" {
			t.Errorf("format %v: content of /d/f = %q, %v", format, c, err)
		}
		writeFile(t, e.stfs, "/d/n", "new")
		tr = tree(t, e.stfs)
		if !contains(tr, "/d/n") || !contains(tr, "/d/f") {
			t.Errorf("format %v: tree after adding /d/n = %v", format, tr)
		}
		os.Remove(e.index)
		e2 := newFS(t, dir, false, config.PipeConfig{})
		if _, err := e2.stfs.Initialize("/", os.ModePerm); err != nil {
			t.Fatalf("format %v: rebuild: %v", format, err)
		}
		tr2 := tree(t, e2.stfs)
		if !contains(tr2, "/d/n") || !contains(tr2, "/d/f") || !contains(tr2, "/g") {
			t.Errorf("format %v: tree after rebuild = %v", format, tr2)
		}
	}
}
