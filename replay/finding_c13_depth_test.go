package replay

import (
	"testing"

	"github.com/pojntfx/stfs/pkg/config"
)

// C13: a directory listing must not contain deeper descendants: /a/b/a/c is not a child of /a.
func TestFinding_C13_DepthReplacesEveryOccurrence(t *testing.T) {
	e := newFS(t, "", false, config.PipeConfig{})
	e.init(t)
	f := e.stfs
	for _, d := range []string{"/a", "/a/b", "/a/b/a"} {
		if err := f.Mkdir(d, 0o755); err != nil {
			t.Fatal(d, err)
		}
	}
	writeFile(t, f, "/a/b/a/c", "c")
	h, err := f.Open("/a")
	if err != nil {
		t.Fatal(err)
	}
	names, err := h.Readdirnames(-1)
	if err != nil {
		t.Fatal(err)
	}
	if len(names) != 1 || names[0] != "b" {
		t.Errorf("Readdirnames(/a) = %v, want [b]", names)
	}
	if tr := tree(t, f); len(tr) != 4 {
		t.Errorf("tree = %v", tr)
	}
}
