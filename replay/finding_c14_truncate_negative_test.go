package replay

import (
	"os"
	"testing"

	"github.com/pojntfx/stfs/pkg/config"
)

// C14/C10: Truncate with a negative size must be refused, not panic.
func TestFinding_C14_TruncateNegativePanics(t *testing.T) {
	e := newFS(t, "", false, config.PipeConfig{})
	e.init(t)
	f := e.stfs
	writeFile(t, f, "/f", "abc")
	h, err := f.OpenFile("/f", os.O_RDWR, 0)
	if err != nil {
		t.Fatal(err)
	}
	defer h.Close()
	defer func() {
		if r := recover(); r != nil {
			t.Errorf("Truncate(-1) panicked: %v", r)
		}
	}()
	if err := h.Truncate(-1); err == nil {
		t.Errorf("Truncate(-1) succeeded")
	}
}
