package replay

import (
	"os"
	"testing"

	"github.com/pojntfx/stfs/pkg/config"
)

// C10: when restoring fails while a file is being read, the helper goroutine called panic(err) and
// crashed the whole process; the reader must get an error instead.
func TestFinding_C10_RestoreErrorCrashesProcess(t *testing.T) {
	e := newFS(t, "", false, config.PipeConfig{})
	e.init(t)
	f := e.stfs
	writeFile(t, f, "/f", "hello world")
	// damage the drive behind the filesystem's back: the record of /f is cut off
	if err := os.Truncate(e.drive, 700); err != nil {
		t.Fatal(err)
	}
	h, err := f.Open("/f")
	if err != nil {
		t.Fatal(err)
	}
	buf := make([]byte, 4)
	n, err := h.Read(buf)
	if err == nil {
		t.Errorf("Read on a damaged drive returned %d bytes and no error", n)
	}
	h.Close()
	// the drive must be free for the next call
	if _, err := f.Stat("/"); err != nil {
		t.Errorf("Stat after failed read: %v", err)
	}
}
