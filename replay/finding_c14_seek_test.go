package replay

import (
	"io"
	"testing"

	"github.com/pojntfx/stfs/pkg/config"
)

// C14: Seek on a handle in read mode returns the new offset; SeekEnd adds the (usually negative) offset.
func TestFinding_C14_SeekSemantics(t *testing.T) {
	e := newFS(t, "", false, config.PipeConfig{})
	e.init(t)
	f := e.stfs
	writeFile(t, f, "/f", "0123456789")
	h, err := f.Open("/f")
	if err != nil {
		t.Fatal(err)
	}
	defer h.Close()
	if off, err := h.Seek(3, io.SeekStart); err != nil || off != 3 {
		t.Errorf("Seek(3, Start) = %d, %v; want 3", off, err)
	}
	if off, err := h.Seek(2, io.SeekCurrent); err != nil || off != 5 {
		t.Errorf("Seek(2, Current) after Seek(3, Start) = %d, %v; want 5", off, err)
	}
	if off, err := h.Seek(-2, io.SeekEnd); err != nil || off != 8 {
		t.Errorf("Seek(-2, End) on 10 bytes = %d, %v; want 8", off, err)
	}
	buf := make([]byte, 2)
	if n, _ := h.Read(buf); n != 2 || string(buf) != "89" {
		t.Errorf("Read after Seek(-2, End) = %q (%d bytes); want \"89\"", buf[:n], n)
	}
	if _, err := h.Seek(-1, io.SeekStart); err == nil {
		t.Errorf("Seek(-1, Start) succeeded")
	}
}
