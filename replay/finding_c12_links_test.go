package replay

import (
	"testing"

	"github.com/pojntfx/stfs/pkg/config"
)

// KNOWN (open) C12-links-are-filed-under-their-target: documents the behaviour; passes while the defect is present and
// skips when it is gone.
func TestKnown_C12_RecursiveRemoveSelectsLinksByTheirTarget(t *testing.T) {
	e := newFS(t, t.TempDir(), false, config.PipeConfig{})
	e.init(t)
	f := e.stfs
	f.Mkdir("/d", 0o755)
	writeFile(t, f, "/d/f", "")
	writeFile(t, f, "/x", "")
	if err := f.SymlinkIfPossible("/x", "/d/l"); err != nil {
		t.Fatal(err)
	}
	if err := f.SymlinkIfPossible("/d/f", "/m"); err != nil {
		t.Fatal(err)
	}
	if err := f.RemoveAll("/d"); err != nil {
		t.Fatal(err)
	}
	_, _, insideErr := f.LstatIfPossible("/d/l")
	_, _, outsideErr := f.LstatIfPossible("/m")
	if insideErr != nil && outsideErr == nil {
		t.Skip("defect no longer present: the link inside /d went with it and the link at /m stayed")
	}
	t.Logf("after RemoveAll(/d): Lstat(/d/l) = %v (want: gone), Lstat(/m) = %v (want: still there, dangling)", insideErr, outsideErr)
}
