//go:build race

package replay

import (
	"os"
	"sync"
	"testing"

	"github.com/pojntfx/stfs/pkg/config"
)

// fixed: C11-file-state-read-before-lock: Write/WriteAt/WriteString/Truncate/Read/ReadAt/Readdirnames read f.info
// before taking the io lock while Sync/Close replace it under the lock. Run with -race (the native lane of C11 does).
func TestFinding_C11_HandleStateReadUnderLock(t *testing.T) {
	e := newFS(t, "", false, config.PipeConfig{})
	e.init(t)
	writeFile(t, e.stfs, "/f", "pqr")
	h, err := e.stfs.OpenFile("/f", os.O_RDWR, 0)
	if err != nil {
		t.Fatal(err)
	}
	var wg sync.WaitGroup
	wg.Add(2)
	go func() {
		defer wg.Done()
		for i := 0; i < 40; i++ {
			h.Write([]byte("x"))
			h.WriteString("y")
			h.Truncate(2)
			h.WriteAt([]byte("z"), 0)
			buf := make([]byte, 1)
			h.ReadAt(buf, 0)
			h.Read(buf)
			h.Readdirnames(-1)
		}
	}()
	go func() {
		defer wg.Done()
		for i := 0; i < 40; i++ {
			h.Sync() // replaces f.info while holding the io lock
		}
	}()
	wg.Wait()
	h.Close()
}
