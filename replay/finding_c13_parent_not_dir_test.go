package replay

import (
	"testing"

	"github.com/pojntfx/stfs/pkg/config"
)

// C13: nothing may be created underneath a regular file.
func TestFinding_C13_ParentIsNotADirectory(t *testing.T) {
	e := newFS(t, "", false, config.PipeConfig{})
	e.init(t)
	f := e.stfs
	writeFile(t, f, "/file", "x")
	if err := f.Mkdir("/file/sub", 0o755); err == nil {
		t.Errorf("Mkdir under a regular file was accepted")
	}
	if h, err := f.Create("/file/child"); err == nil {
		h.Close()
		t.Errorf("Create under a regular file was accepted")
	}
	writeFile(t, f, "/other", "y")
	if err := f.Rename("/other", "/file/moved"); err == nil {
		t.Errorf("Rename to a path under a regular file was accepted")
	}
	if tr := tree(t, f); len(tr) != 2 {
		t.Errorf("tree = %v, want [/file /other]", tr)
	}
}
