package replay

import (
	"testing"
	"time"

	"github.com/pojntfx/stfs/pkg/config"
)

// C10: RemoveAll of a missing path returns nil, but the next write call blocked forever because the
// drive lock taken by the rejected Delete was never released.
func TestFinding_C10_RejectedCallLeavesDriveLocked(t *testing.T) {
	e := newFS(t, "", false, config.PipeConfig{})
	e.init(t)
	f := e.stfs
	if err := f.RemoveAll("/missing"); err != nil {
		t.Fatal(err)
	}
	done := make(chan error, 1)
	go func() { done <- f.Mkdir("/next", 0o755) }()
	select {
	case err := <-done:
		if err != nil {
			t.Errorf("Mkdir after rejected RemoveAll: %v", err)
		}
	case <-time.After(5 * time.Second):
		t.Errorf("Mkdir after RemoveAll(/missing) did not return within 5s: the drive is still locked")
	}
}
