package replay

import (
	"testing"

	"github.com/pojntfx/stfs/pkg/config"
)

// fixed: C07-replayed-move-renames-link-rows
func TestFinding_C07_ReplayedMoveLeavesLinksToTheOldNameAlone(t *testing.T) {
	e := newFS(t, t.TempDir(), false, config.PipeConfig{})
	e.init(t)
	f := e.stfs
	writeFile(t, f, "/b", "z")
	if err := f.Rename("/b", "/a"); err != nil {
		t.Fatal(err)
	}
	if err := f.Remove("/a"); err != nil {
		t.Fatal(err)
	}
	if err := f.SymlinkIfPossible("/b", "/a"); err != nil {
		t.Fatal(err)
	}
	if err := reindexNoWipe(t, e); err != nil {
		t.Fatalf("reindex: %v", err)
	}
	if l, err := f.ReadlinkIfPossible("/a"); err != nil || l != "b" {
		t.Errorf("after replaying the tape into the live index the link /a points to %q (%v); it was created pointing to \"b\"", l, err)
	}
}

// the target of a link is renamed: the link keeps naming the old path (it dangles), it is not rewritten
func TestFinding_C07_RenamingATargetLeavesItsLinksAlone(t *testing.T) {
	e := newFS(t, t.TempDir(), false, config.PipeConfig{})
	e.init(t)
	f := e.stfs
	writeFile(t, f, "/b", "z")
	if err := f.SymlinkIfPossible("/b", "/l"); err != nil {
		t.Fatal(err)
	}
	if err := f.Rename("/b", "/c"); err != nil {
		t.Fatal(err)
	}
	if l, err := f.ReadlinkIfPossible("/l"); err != nil || l != "b" {
		t.Errorf("after renaming its target the link /l points to %q (%v), want \"b\"", l, err)
	}
	if c, err := readFile(t, f, "/c"); err != nil || c != "z" {
		t.Errorf("/c reads %q, %v", c, err)
	}
	e2 := rebuiltFS(t, e)
	if l, err := e2.stfs.ReadlinkIfPossible("/l"); err != nil || l != "b" {
		t.Errorf("after a rebuild the link /l points to %q (%v), want \"b\"", l, err)
	}
}
