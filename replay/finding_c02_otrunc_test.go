package replay

import (
	"testing"

	"github.com/pojntfx/stfs/pkg/config"
)

// KNOWN FINDING (open) C02-otrunc-takes-effect-only-on-write: Create on an existing file does not truncate
// it unless something is written through the handle. This test documents the behaviour: it PASSES while
// the defect is present.
func TestKnown_C02_OTruncOnlyOnWrite(t *testing.T) {
	e := newFS(t, "", false, config.PipeConfig{})
	e.init(t)
	f := e.stfs
	writeFile(t, f, "/f", "hello")
	h, err := f.Create("/f")
	if err != nil {
		t.Fatal(err)
	}
	h.Close()
	st, err := f.Stat("/f")
	if err != nil {
		t.Fatal(err)
	}
	if st.Size() == 0 {
		t.Skip("defect no longer present: Create truncated the file")
	}
	if st.Size() != 5 {
		t.Errorf("unexpected size %d", st.Size())
	}
}
