package replay

import (
	"testing"

	"github.com/pojntfx/stfs/pkg/config"
)

// fixed: C02-otrunc-takes-effect-only-on-write (d0cf1c6): Create on an existing file did not truncate it unless
// something was written through the handle.
func TestFinding_C02_CreateTruncatesExistingFile(t *testing.T) {
	e := newFS(t, "", false, config.PipeConfig{})
	e.init(t)
	f := e.stfs
	writeFile(t, f, "/f", "hello")
	h, err := f.Create("/f")
	if err != nil {
		t.Fatal(err)
	}
	h.Close()
	st, err := f.Stat("/f")
	if err != nil {
		t.Fatal(err)
	}
	if st.Size() != 0 {
		t.Errorf("size after Create+Close on an existing 5-byte file: %d, want 0", st.Size())
	}
	if c, _ := readFile(t, f, "/f"); c != "" {
		t.Errorf("content after Create+Close: %q, want empty", c)
	}
}
