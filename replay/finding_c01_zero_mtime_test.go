package replay

import (
	"os"
	"testing"
	"time"

	"github.com/pojntfx/stfs/pkg/config"
)

// fixed: C01-zero-mtime-differs-after-rebuild — Chtimes with the zero time.Time as modification time: the running
// instance showed year 1, an instance over an index rebuilt from the tape showed 1970-01-01 (archive/tar writes a zero
// modification time as the Unix epoch).
func TestFinding_C01_ZeroModTimeIsTheSameAfterARebuild(t *testing.T) {
	e := newFS(t, "", false, config.PipeConfig{})
	e.init(t)
	writeFile(t, e.stfs, "/f", "pq")
	if err := e.stfs.Chtimes("/f", time.Unix(1000, 0), time.Time{}); err != nil {
		t.Fatal(err)
	}
	live, err := e.stfs.Stat("/f")
	if err != nil {
		t.Fatal(err)
	}
	if err := os.Remove(e.index); err != nil {
		t.Fatal(err)
	}
	e2 := newFS(t, e.dir, false, config.PipeConfig{})
	e2.init(t)
	rebuilt, err := e2.stfs.Stat("/f")
	if err != nil {
		t.Fatal(err)
	}
	if !live.ModTime().Equal(rebuilt.ModTime()) {
		t.Errorf("ModTime after Chtimes(…, time.Time{}): %v on the running instance, %v after a rebuild", live.ModTime().UTC(), rebuilt.ModTime().UTC())
	}
}
