package replay

import (
	"archive/tar"
	"os"
	"testing"

	"github.com/pojntfx/stfs/pkg/config"
)

// C17-foreign-members-cannot-be-removed-or-renamed: members of a ustar or GNU archive keep their format in the index;
// the DELETE / MOVE record written for them carries STFS PAX records, which archive/tar refuses to encode in those
// formats, so Remove, RemoveAll and Rename of an original member fail (Chmod works: Update writes PAX).
func TestFinding_C17_ForeignMembersCanBeRemovedAndRenamed(t *testing.T) {
	for _, format := range []tar.Format{tar.FormatUSTAR, tar.FormatGNU, tar.FormatPAX} {
		dir := t.TempDir()
		e := newFS(t, dir, false, config.PipeConfig{})
		writeForeignTar(t, e.drive, format, []string{"./", "./d/", "./d/f", "./g", "./h"}, map[string]bool{"./": true, "./d/": true})
		if _, err := e.stfs.Initialize("/", os.ModePerm); err != nil {
			t.Fatalf("format %v: Initialize: %v", format, err)
		}
		if err := e.stfs.Chmod("/g", 0o600); err != nil {
			t.Errorf("format %v: Chmod(/g) = %v", format, err)
		}
		if err := e.stfs.Remove("/g"); err != nil {
			t.Errorf("format %v: Remove(/g) = %v", format, err)
		}
		if err := e.stfs.Rename("/h", "/i"); err != nil {
			t.Errorf("format %v: Rename(/h, /i) = %v", format, err)
		}
		if err := e.stfs.RemoveAll("/d"); err != nil {
			t.Errorf("format %v: RemoveAll(/d) = %v", format, err)
		}
		if tr := tree(t, e.stfs); len(tr) != 1 || !contains(tr, "/i") {
			t.Errorf("format %v: tree afterwards = %v, want [/i]", format, tr)
		}
		e2 := rebuiltFS(t, e)
		if tr := tree(t, e2.stfs); len(tr) != 1 || !contains(tr, "/i") {
			t.Errorf("format %v: tree after a rebuild = %v, want [/i]", format, tr)
		}
	}
}
