package replay

import (
	"testing"
	"time"

	"github.com/pojntfx/stfs/pkg/config"
)

// KNOWN (open) C11-partial-reader-keeps-drive-locked: documents the behaviour; passes while the defect is
// present and skips when the writer is no longer blocked.
func TestKnown_C11_PartialReaderKeepsDriveLocked(t *testing.T) {
	e := newFS(t, "", false, config.PipeConfig{})
	e.init(t)
	writeFile(t, e.stfs, "/big", "0123456789")
	h, err := e.stfs.Open("/big")
	if err != nil {
		t.Fatal(err)
	}
	buf := make([]byte, 1)
	if _, err := h.Read(buf); err != nil {
		t.Fatal(err)
	}
	done := make(chan error, 1)
	go func() { done <- e.stfs.Mkdir("/x", 0o755) }()
	select {
	case err := <-done:
		t.Skipf("defect no longer present: Mkdir returned %v while a partly read handle is open", err)
	case <-time.After(2 * time.Second):
		t.Logf("Mkdir blocks while a handle that has read 1 of 10 bytes is open (the restore goroutine is parked on the pipe holding the drive)")
	}
}
