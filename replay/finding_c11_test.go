package replay

import (
	"context"
	"path/filepath"
	"sync"
	"testing"
	"time"

	"github.com/pojntfx/stfs/pkg/cache"
	"github.com/pojntfx/stfs/pkg/config"
	"github.com/pojntfx/stfs/pkg/fs"
)

// KNOWN (open) C11-partial-reader-keeps-drive-locked: documents the behaviour; passes while the defect is
// present and skips when the writer is no longer blocked.
func TestKnown_C11_PartialReaderKeepsDriveLocked(t *testing.T) {
	e := newFS(t, "", false, config.PipeConfig{})
	e.init(t)
	writeFile(t, e.stfs, "/big", "0123456789")
	h, err := e.stfs.Open("/big")
	if err != nil {
		t.Fatal(err)
	}
	buf := make([]byte, 1)
	if _, err := h.Read(buf); err != nil {
		t.Fatal(err)
	}
	done := make(chan error, 1)
	go func() { done <- e.stfs.Mkdir("/x", 0o755) }()
	select {
	case err := <-done:
		t.Skipf("defect no longer present: Mkdir returned %v while a partly read handle is open", err)
	case <-time.After(2 * time.Second):
		t.Logf("Mkdir blocks while a handle that has read 1 of 10 bytes is open (the restore goroutine is parked on the pipe holding the drive)")
	}
}

// overlapProbe wraps the real metadata persister: the first lookup of "/d" parks until released, and the probe
// records how many lookups were in flight at once. Two calls that both hold the io lock can never overlap.
type overlapProbe struct {
	config.MetadataPersister
	mu       sync.Mutex
	inflight int
	max      int
	parked   bool
	entered  chan struct{}
	release  chan struct{}
}

func (p *overlapProbe) GetHeader(ctx context.Context, name string) (*config.Header, error) {
	p.mu.Lock()
	p.inflight++
	if p.inflight > p.max {
		p.max = p.inflight
	}
	park := !p.parked && name == "/d"
	if park {
		p.parked = true
	}
	p.mu.Unlock()
	if park {
		close(p.entered)
		<-p.release
	}
	h, err := p.MetadataPersister.GetHeader(ctx, name)
	p.mu.Lock()
	p.inflight--
	p.mu.Unlock()
	return h, err
}

// fixed: C11-create-looks-up-parent-outside-lock: STFS.Create looked up the parent in the index before the io lock was
// taken, i.e. concurrently with calls that hold the lock (deterministic schedule: Stat is parked inside its lookup).
func TestFinding_C11_CreateLooksUpParentUnderLock(t *testing.T) {
	e := newFS(t, "", false, config.PipeConfig{})
	e.init(t)
	if err := e.stfs.Mkdir("/d", 0o755); err != nil {
		t.Fatal(err)
	}
	probe := &overlapProbe{MetadataPersister: e.p, entered: make(chan struct{}), release: make(chan struct{})}
	md := config.MetadataConfig{Metadata: probe}
	f := fs.NewSTFS(e.readOps, e.writeOps, md, config.CompressionLevelFastestKey,
		func() (cache.WriteCache, func() error, error) {
			return cache.NewCacheWrite(filepath.Join(e.dir, "wc"), config.WriteCacheTypeMemory)
		},
		false, false, func(*config.Header) {}, stfsLogger{})
	statDone := make(chan struct{})
	go func() { f.Stat("/d"); close(statDone) }()
	<-probe.entered // Stat holds the io lock and is inside its index lookup
	createDone := make(chan struct{})
	go func() { f.Create("/missing/x"); close(createDone) }()
	select {
	case <-createDone:
	case <-time.After(500 * time.Millisecond):
	}
	close(probe.release)
	<-statDone
	<-createDone
	if probe.max > 1 {
		t.Errorf("%d index lookups were in flight at once: Create used the index while Stat held the io lock", probe.max)
	}
}
