package replay

import (
	"io"
	"os"
	"path/filepath"
	"sort"
	"testing"

	golog "github.com/fclairamb/go-log"
	"github.com/pojntfx/stfs/pkg/cache"
	"github.com/pojntfx/stfs/pkg/config"
	"github.com/pojntfx/stfs/pkg/fs"
	"github.com/pojntfx/stfs/pkg/mtio"
	"github.com/pojntfx/stfs/pkg/operations"
	"github.com/pojntfx/stfs/pkg/persisters"
	"github.com/pojntfx/stfs/pkg/tape"
	"github.com/spf13/afero"
)

type stfsLogger struct{}

func (stfsLogger) Trace(string, ...interface{})       {}
func (stfsLogger) Debug(string, ...interface{})       {}
func (stfsLogger) Info(string, ...interface{})        {}
func (stfsLogger) Warn(string, ...interface{})        {}
func (stfsLogger) Error(string, ...interface{})       {}
func (stfsLogger) Panic(string, ...interface{})       {}
func (l stfsLogger) With(...interface{}) golog.Logger { return l }

type env struct {
	dir      string
	drive    string
	index    string
	stfs     *fs.STFS
	p        *persisters.MetadataPersister
	readOps  *operations.Operations
	writeOps *operations.Operations
	tm       *tape.TapeManager
}

// newFS builds a real STFS (real SQLite, real tar file) the way examples/full does, without encryption etc.
func newFS(t *testing.T, dir string, readOnly bool, pipes config.PipeConfig) *env {
	t.Helper()
	if dir == "" {
		dir = t.TempDir()
	}
	e := &env{dir: dir, drive: filepath.Join(dir, "drive.tar"), index: filepath.Join(dir, "index.sqlite")}
	if pipes.RecordSize == 0 {
		pipes.RecordSize = 20
	}
	mt := mtio.MagneticTapeIO{}
	e.tm = tape.NewTapeManager(e.drive, mt, pipes.RecordSize, false)
	e.p = persisters.NewMetadataPersister(e.index)
	if err := e.p.Open(); err != nil {
		t.Fatal(err)
	}
	md := config.MetadataConfig{Metadata: e.p}
	backend := config.BackendConfig{GetWriter: e.tm.GetWriter, CloseWriter: e.tm.Close, GetReader: e.tm.GetReader, CloseReader: e.tm.Close, MagneticTapeIO: mt}
	e.readOps = operations.NewOperations(backend, md, pipes, config.CryptoConfig{}, func(*config.HeaderEvent) {})
	e.writeOps = operations.NewOperations(backend, md, pipes, config.CryptoConfig{}, func(*config.HeaderEvent) {})
	e.stfs = fs.NewSTFS(e.readOps, e.writeOps, md, config.CompressionLevelFastestKey,
		func() (cache.WriteCache, func() error, error) { return cache.NewCacheWrite(filepath.Join(dir, "wc"), config.WriteCacheTypeMemory) },
		readOnly, false, func(*config.Header) {}, stfsLogger{})
	return e
}

func (e *env) init(t *testing.T) {
	t.Helper()
	if _, err := e.stfs.Initialize("/", os.ModePerm); err != nil {
		t.Fatal("initialize:", err)
	}
}

func writeFile(t *testing.T, f afero.Fs, name, content string) {
	t.Helper()
	h, err := f.Create(name)
	if err != nil {
		t.Fatalf("create %s: %v", name, err)
	}
	if content != "" {
		if _, err := h.Write([]byte(content)); err != nil {
			t.Fatalf("write %s: %v", name, err)
		}
	}
	if err := h.Close(); err != nil {
		t.Fatalf("close %s: %v", name, err)
	}
}

func readFile(t *testing.T, f afero.Fs, name string) (string, error) {
	h, err := f.Open(name)
	if err != nil {
		return "", err
	}
	defer h.Close()
	b, err := io.ReadAll(h)
	return string(b), err
}

// tree walks with Open+Readdir (afero.Walk does not work on a bare STFS).
func tree(t *testing.T, f afero.Fs) []string {
	var out []string
	var walk func(dir string)
	walk = func(dir string) {
		h, err := f.Open(dir)
		if err != nil {
			return
		}
		infos, err := h.Readdir(-1)
		h.Close()
		if err != nil {
			return
		}
		for _, i := range infos {
			p := filepath.Join(dir, i.Name())
			out = append(out, p)
			if i.IsDir() {
				walk(p)
			}
		}
	}
	walk("/")
	sort.Strings(out)
	return out
}

func contains(xs []string, x string) bool {
	for _, y := range xs {
		if y == x {
			return true
		}
	}
	return false
}
