package replay

import (
	"archive/tar"
	"testing"

	"github.com/pojntfx/stfs/pkg/config"
	"github.com/pojntfx/stfs/pkg/mtio"
	"github.com/pojntfx/stfs/pkg/recovery"
)

// reindexNoWipe replays the whole tape into the existing index without wiping it (`stfs recovery index` without --overwrite).
func reindexNoWipe(t *testing.T, e *env) error {
	reader, err := e.tm.GetReader()
	if err != nil {
		e.tm.Close()
		return err
	}
	err = recovery.Index(reader, mtio.MagneticTapeIO{}, config.MetadataConfig{Metadata: e.p}, config.PipeConfig{RecordSize: 20}, config.CryptoConfig{},
		0, 0, false, false, 0,
		func(hdr *tar.Header, i int) error { return nil },
		func(hdr *tar.Header, isRegular bool) error { return nil },
		func(hdr *config.Header) {})
	if cerr := e.tm.Close(); err == nil {
		err = cerr
	}
	return err
}

// fixed: C07-removed-link-reappears-on-reindex: a DELETE record names a link by the name of its target; replayed into an
// index in which the target has been created meanwhile it tombstoned the target's row instead, and the removed link
// stayed visible after the replay (a rebuild from scratch does not show it).
func TestFinding_C07_RemovedLinkStaysRemovedOnReindex(t *testing.T) {
	e := newFS(t, t.TempDir(), false, config.PipeConfig{})
	e.init(t)
	f := e.stfs
	if err := f.SymlinkIfPossible("/b", "/a"); err != nil {
		t.Fatal(err)
	}
	if err := f.Remove("/a"); err != nil {
		t.Fatal(err)
	}
	writeFile(t, f, "/b", "z")
	if err := reindexNoWipe(t, e); err != nil {
		t.Fatalf("reindex: %v", err)
	}
	if l, err := f.ReadlinkIfPossible("/a"); err == nil {
		t.Errorf("after replaying the tape into the live index the removed link /a is back (-> %q)", l)
	}
	if c, err := readFile(t, f, "/b"); err != nil || c != "z" {
		t.Errorf("/b after the replay: %q, %v", c, err)
	}
}

// fixed: C02-removing-a-link-removes-its-target: Remove of a symbolic link tombstoned the row of its target (rows are
// looked up by name, and a link row carries the target's name), leaving the link dangling and the file gone.
func TestFinding_C02_RemovingALinkKeepsItsTarget(t *testing.T) {
	e := newFS(t, t.TempDir(), false, config.PipeConfig{})
	e.init(t)
	f := e.stfs
	writeFile(t, f, "/target", "hello")
	if err := f.SymlinkIfPossible("/target", "/l"); err != nil {
		t.Fatal(err)
	}
	if err := f.Remove("/l"); err != nil {
		t.Fatal(err)
	}
	if c, err := readFile(t, f, "/target"); err != nil || c != "hello" {
		t.Errorf("after removing the link /l its target reads %q, %v", c, err)
	}
	if _, err := f.ReadlinkIfPossible("/l"); err == nil {
		t.Errorf("the removed link /l is still there")
	}
	e2 := rebuiltFS(t, e)
	if c, err := readFile(t, e2.stfs, "/target"); err != nil || c != "hello" {
		t.Errorf("after a rebuild the target reads %q, %v", c, err)
	}
}
