package replay

import (
	"testing"

	"github.com/pojntfx/stfs/pkg/config"
)

// C03: an empty file must read back as empty under every pipeline configuration (it used to fail under
// gzip/lz4/bzip2, under encryption and under signatures, because no stream is written for it).
func TestFinding_C03_EmptyFileUnderCompression(t *testing.T) {
	for _, c := range []string{config.CompressionFormatGZipKey, config.CompressionFormatLZ4Key, config.CompressionFormatBzip2Key, config.CompressionFormatZStandardKey, config.NoneKey} {
		e := newFS(t, "", false, config.PipeConfig{Compression: c})
		e.init(t)
		writeFile(t, e.stfs, "/empty", "")
		got, err := readFile(t, e.stfs, "/empty")
		if err != nil || got != "" {
			t.Errorf("compression %q: reading an empty file: content=%q err=%v", c, got, err)
		}
		st, err := e.stfs.Stat("/empty")
		if err != nil || st.Size() != 0 {
			t.Errorf("compression %q: Stat(/empty) = %v, %v", c, st, err)
		}
		// a non-empty file still round-trips
		writeFile(t, e.stfs, "/full", "content")
		if got, err := readFile(t, e.stfs, "/full"); err != nil || got != "content" {
			t.Errorf("compression %q: content=%q err=%v", c, got, err)
		}
	}
}

// KNOWN (open) C03-name-ending-in-codec-suffix: documents the behaviour; passes while the defect is present.
func TestKnown_C03_NameEndingInCodecSuffix(t *testing.T) {
	e := newFS(t, "", false, config.PipeConfig{Compression: config.CompressionFormatGZipKey})
	e.init(t)
	h, err := e.stfs.Create("/x.gz")
	if err == nil {
		h.Close()
		if _, serr := e.stfs.Stat("/x.gz"); serr == nil {
			t.Skip("defect no longer present")
		}
	}
	t.Logf("Create(/x.gz) under gzip: %v; tree: %v", err, tree(t, e.stfs))
}
