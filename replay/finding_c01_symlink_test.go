package replay

import (
	"os"
	"testing"

	"github.com/pojntfx/stfs/pkg/config"
)

func rebuiltFS(t *testing.T, e *env) *env {
	os.Remove(e.index)
	os.Remove(e.index + "-wal")
	os.Remove(e.index + "-shm")
	e2 := newFS(t, e.dir, false, config.PipeConfig{})
	e2.init(t)
	return e2
}

// fixed: C01-symlink-lost-after-rebuild: the index stored a link's own path unsanitised but looks it up sanitised, so
// an index rebuilt from the tape (relative names) no longer showed any symbolic link.
func TestFinding_C01_SymlinkSurvivesRebuild(t *testing.T) {
	e := newFS(t, t.TempDir(), false, config.PipeConfig{})
	e.init(t)
	writeFile(t, e.stfs, "/target", "hello")
	if err := e.stfs.SymlinkIfPossible("/target", "/l"); err != nil {
		t.Fatal(err)
	}
	if s, err := e.stfs.ReadlinkIfPossible("/l"); err != nil || s != "target" {
		t.Fatalf("live readlink = %q, %v", s, err)
	}
	e2 := rebuiltFS(t, e)
	if s, err := e2.stfs.ReadlinkIfPossible("/l"); err != nil || s != "target" {
		t.Errorf("readlink /l after rebuilding the index = %q, %v; the live instance reports \"target\"", s, err)
	}
	if c, err := readFile(t, e2.stfs, "/l"); err != nil || c != "hello" {
		t.Errorf("read through /l after rebuilding the index = %q, %v", c, err)
	}
}

// fixed: C01-lstat-root-on-rebuilt-index: on a rebuilt index the root is spelled "" like the link path of every entry that
// is not a link, so Lstat("/") returned an arbitrary entry where the running instance reports "does not exist".
func TestFinding_C01_LstatRootSameAfterRebuild(t *testing.T) {
	e := newFS(t, t.TempDir(), false, config.PipeConfig{})
	e.init(t)
	writeFile(t, e.stfs, "/target", "hello")
	_, _, liveErr := e.stfs.LstatIfPossible("/")
	e2 := rebuiltFS(t, e)
	fi, _, err := e2.stfs.LstatIfPossible("/")
	if (err == nil) != (liveErr == nil) {
		name := ""
		if fi != nil {
			name = fi.Name()
		}
		t.Errorf("Lstat(\"/\"): live instance %v, after rebuilding the index %v (entry %q)", liveErr, err, name)
	}
}
